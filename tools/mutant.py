#!/venv/bin/python
"""tools/mutant.py <src dir with patch.diff demo.py notes.md> <PROP> <seed-id> [extra check ids...]

1. confirms in a scratch worktree that the change applies, the repository's tests still pass and the
   demonstration fails with the change and passes without it;
2. applies the change to /repo, runs ./check <PROP> (quick; plus extra ids), records the verdicts, reverts;
3. stores everything under /verif/seeded/<seed-id>/.
"""
import json
import os
import re
import shutil
import subprocess
import sys

VERIF = os.path.dirname(os.path.dirname(os.path.abspath(__file__)))


def sh(cmd, cwd=None, timeout=1800, env=None):
    p = subprocess.run(cmd, shell=True, cwd=cwd, stdout=subprocess.PIPE, stderr=subprocess.STDOUT, text=True, errors="replace", timeout=timeout, env=env)
    return p.returncode, p.stdout


def main():
    src, prop, sid = sys.argv[1:4]
    extra = sys.argv[4:]
    patch = os.path.join(src, "patch.diff")
    wt = "/tmp/mv-%s" % sid
    sh("git -C /repo worktree remove --force %s" % wt)
    rc, out = sh("git -C /repo worktree add -q --detach %s HEAD" % wt)
    assert rc == 0, out
    meta = {"property": prop, "id": sid, "source": src}
    try:
        shutil.copytree(src, os.path.join(wt, "out_demo"))
        env = dict(os.environ, PYTHONPATH=wt, PYTHONDONTWRITEBYTECODE="1")
        rc0, o0 = sh("flock /tmp/pgmc-pytest.lock /venv/bin/python out_demo/demo.py %s" % wt, cwd=wt, env=env)
        meta["demo_without_change_rc"] = rc0
        rc, out = sh("git apply %s" % patch, cwd=wt)
        if rc != 0:
            # the tree has moved on since the change was written: try a three-way merge
            rc, out = sh("git apply -3 %s && git reset -q" % patch, cwd=wt)
            meta["applied_with_3way"] = rc == 0
            if rc == 0:
                sh("git diff > %s" % os.path.join(wt, "out_demo", "patch.rebased.diff"), cwd=wt)
                patch = os.path.join(wt, "out_demo", "patch.rebased.diff")
                with open(patch) as f:
                    meta["_rebased_patch"] = f.read()
        meta["applies"] = rc == 0
        if rc != 0:
            print("PATCH DOES NOT APPLY", out)
        rct, ot = sh("flock /tmp/pgmc-pytest.lock /venv/bin/python -m pytest -q -p no:cacheprovider --timeout=900 -x --deselect tests/handlers/test_zip.py::TestVFSZip::test_save_cache 2>&1 | tail -3", cwd=wt)
        m = re.search(r"(\d+) passed", ot)
        meta["tests_passed_with_change"] = int(m.group(1)) if m else None
        meta["tests_tail"] = ot.strip().splitlines()[-1] if ot.strip() else ""
        rc1, o1 = sh("flock /tmp/pgmc-pytest.lock /venv/bin/python out_demo/demo.py %s" % wt, cwd=wt, env=env)
        meta["demo_with_change_rc"] = rc1
        meta["demo_with_change_tail"] = o1.strip().splitlines()[-3:]
        ok = meta.get("applies") and meta["demo_without_change_rc"] == 0 and meta["demo_with_change_rc"] != 0 and meta["tests_passed_with_change"] == 119 and "failed" not in meta["tests_tail"]
        meta["confirmed"] = bool(ok)
        print(json.dumps({k: meta[k] for k in ("applies", "demo_without_change_rc", "demo_with_change_rc", "tests_passed_with_change", "tests_tail", "confirmed")}))
        # run the checks against the changed tree (the scratch worktree, via PGMC_REPO, so that
        # several trials can run side by side without touching /repo)
        results = {}
        sh("git checkout -- . ; git clean -fdq -e out_demo", cwd=wt)
        if meta.get("_rebased_patch"):
            with open("/tmp/mv-%s.rebased.diff" % sid, "w") as f:
                f.write(meta["_rebased_patch"])
            patch = "/tmp/mv-%s.rebased.diff" % sid
        rc, out = sh("git apply %s" % patch, cwd=wt)
        ev = "/tmp/mv-%s-ev" % sid
        cenv = dict(os.environ, PGMC_REPO=wt, PGMC_EVIDENCE_DIR=ev, PGMC_REPLAY_DIR=ev + "/replays")
        for cid in [prop] + extra:
            rcc, oc = sh("timeout -k 5 900 ./check %s --tier quick" % cid, cwd=VERIF, timeout=1000, env=cenv)
            viol = [l for l in oc.splitlines() if l.startswith("VIOLATION")]
            first = ""
            for i, l in enumerate(oc.splitlines()):
                if l.startswith("VIOLATION"):
                    first = " | ".join(x.strip() for x in oc.splitlines()[i + 1:i + 3])[:400]
                    break
            results[cid] = {"exit": rcc, "violation_lines": len(viol), "first": first, "summary": oc.strip().splitlines()[-1][:300] if oc.strip() else ""}
            print(cid, "exit", rcc, "violations", len(viol), first[:200])
        sh("rm -rf %s" % ev)
    finally:
        sh("git -C /repo worktree remove --force %s" % wt)
    meta["checks"] = results
    meta["detected_by"] = [c for c, r in results.items() if r["exit"] == 1 and r["violation_lines"]]
    dst = os.path.join(VERIF, "seeded", sid)
    os.makedirs(dst, exist_ok=True)
    for f in ("patch.diff", "demo.py", "notes.md"):
        if os.path.exists(os.path.join(src, f)):
            shutil.copy(os.path.join(src, f), os.path.join(dst, f))
    if meta.get("_rebased_patch"):
        with open(os.path.join(dst, "patch.diff"), "w") as f:
            f.write(meta.pop("_rebased_patch"))
        meta["note"] = "patch.diff was re-based (git apply -3) onto the tree with later fix: commits"
        sh("rm -f /tmp/mv-%s.rebased.diff" % sid)
    meta["ran"] = "tools/mutant.py: scratch worktree of /repo HEAD (git apply, pytest, demo with/without the change), then PGMC_REPO=<worktree> ./check <id> --tier quick (same code path as against /repo, evidence redirected), worktree removed"
    with open(os.path.join(dst, "meta.json"), "w") as f:
        json.dump(meta, f, indent=1)
    print("detected_by:", meta["detected_by"], "confirmed:", meta["confirmed"])


main()

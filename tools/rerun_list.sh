#!/bin/bash
# usage: rerun_list.sh id... : tools/rerun.sh for each, one line each
cd /verif
for x in "$@"; do PGMC_NPROC=${PGMC_NPROC:-5} tools/rerun.sh $x 2>&1 | grep "^==\|detected_by" | paste - - ; done

#!/bin/bash
# usage: runmut8.sh "PROP N EXTRA..." ...   (round 7)
cd /verif
for spec in "$@"; do
  set -- $spec; p=$1; i=$2; shift 2
  echo "== $p-r7m$i"; PGMC_NPROC=5 tools/mutant.py /tmp/mut-$p/out/$i $p $p-r7m$i "$@" 2>&1 | tail -4
done

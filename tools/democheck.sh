#!/bin/bash
# usage: democheck.sh <seeded id> : does the stored demonstration still fail with the change on the current tree?
sid=$1
wt=/tmp/dc-$sid
git -C /repo worktree remove --force $wt >/dev/null 2>&1
git -C /repo worktree add -q --detach $wt HEAD || exit 3
(cd $wt && timeout 300 /venv/bin/python /verif/seeded/$sid/demo.py $wt >/dev/null 2>&1); a=$?
git -C $wt apply /verif/seeded/$sid/patch.diff || { echo "$sid DOES-NOT-APPLY"; git -C /repo worktree remove --force $wt; exit 3; }
(cd $wt && timeout 300 /venv/bin/python /verif/seeded/$sid/demo.py $wt > /tmp/dc-$sid.out 2>&1); b=$?
echo "$sid demo_without=$a demo_with=$b $(tail -1 /tmp/dc-$sid.out | cut -c1-160)"
rm -f /tmp/dc-$sid.out
git -C /repo worktree remove --force $wt

#!/bin/bash
cd /verif
for id in "$@"; do
  rm -rf /tmp/benrun-$id; cp -r benign/$id /tmp/benrun-$id
  echo "== $id"; PGMC_NPROC=6 tools/benign.py /tmp/benrun-$id $id 2>&1 | tail -4 | cut -c1-500
  rm -rf /tmp/benrun-$id
done

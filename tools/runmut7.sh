#!/bin/bash
# usage: runmut4.sh "PROP N EXTRA..." ...   (round 6)
cd /verif
for spec in "$@"; do
  set -- $spec; p=$1; i=$2; shift 2
  echo "== $p-r6m$i"; PGMC_NPROC=5 tools/mutant.py /tmp/mut-$p/out/$i $p $p-r6m$i "$@" 2>&1 | tail -4
done

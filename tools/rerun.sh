#!/bin/bash
# usage: rerun.sh <seeded id> [extra checks]  : re-evaluate one stored change in place
cd /verif
sid=$1; shift
prop=${sid%%-*}
rm -rf /tmp/rerun-$sid; cp -r seeded/$sid /tmp/rerun-$sid
echo "== $sid"; PGMC_NPROC=${PGMC_NPROC:-8} tools/mutant.py /tmp/rerun-$sid $prop $sid "$@" 2>&1 | tail -3 | cut -c1-400
rm -rf /tmp/rerun-$sid

#!/bin/bash
# re-evaluate every stored benign change with every check (one stream)
cd /verif
for d in benign/*/; do
  id=$(basename $d)
  rm -rf /tmp/benrun-$id; cp -r $d /tmp/benrun-$id
  echo "== $id"; PGMC_NPROC=6 tools/benign.py /tmp/benrun-$id $id 2>&1 | tail -4 | cut -c1-500
  rm -rf /tmp/benrun-$id
done

#!/bin/bash
# tools/runall.sh [seed] [tier]  : run every registered check, print one line each
cd /verif
seed=${1:-0}; tier=${2:-quick}
for c in C01 C02 C03 C04 C05 C06 C07 C08 C09 C10 C11 C12 C13 C14 C15 C16 C17 C18 C19 C20; do
  s=$(date +%s)
  out=$(VERIF_SEED=$seed timeout 7200 ./check $c --tier $tier 2>&1); rc=$?
  echo "rc=$rc $(echo "$out" | tail -1 | cut -c1-220)"
done

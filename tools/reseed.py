#!/venv/bin/python
"""tools/reseed.py K N : re-evaluate every K-th-of-N seeded change against the current checks and tree
(tools/mutant.py on seeded/<id>/ itself), with the checks recorded as detecting it plus its own property."""
import json, os, subprocess, sys
V = os.path.dirname(os.path.dirname(os.path.abspath(__file__)))
k, n = int(sys.argv[1]), int(sys.argv[2])
ids = sorted(d for d in os.listdir(os.path.join(V, "seeded")) if os.path.isdir(os.path.join(V, "seeded", d)))
for i, sid in enumerate(ids):
    if i % n != k:
        continue
    src = os.path.join(V, "seeded", sid)
    meta = json.load(open(os.path.join(src, "meta.json")))
    prop = meta["property"]
    extra = [c for c in meta.get("detected_by", []) if c != prop]
    tmp = "/tmp/reseed-%s" % sid
    subprocess.run("rm -rf %s; cp -r %s %s" % (tmp, src, tmp), shell=True)
    p = subprocess.run([os.path.join(V, "tools", "mutant.py"), tmp, prop, sid] + extra, cwd=V, stdout=subprocess.PIPE, stderr=subprocess.STDOUT, text=True, errors="replace")
    last = [l for l in p.stdout.splitlines() if l.startswith("detected_by")]
    print(sid, last[-1] if last else p.stdout[-300:], flush=True)
    subprocess.run("rm -rf %s" % tmp, shell=True)

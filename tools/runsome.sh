#!/bin/bash
# tools/runsome.sh seed tier C01 C02 ... : run the named checks, one line each
cd "$(dirname "$0")/.."
seed=$1; tier=$2; shift 2
for c in "$@"; do
  out=$(VERIF_SEED=$seed timeout 14400 ./check $c --tier $tier 2>&1); rc=$?
  echo "rc=$rc $(echo "$out" | tail -1 | cut -c1-260)"
done

#!/venv/bin/python
"""Print the markdown table of seeded changes (from seeded/*/meta.json) for DESIGN.md."""
import glob, json, os, re
rows = []
for d in sorted(glob.glob("/verif/seeded/*/")):
    m = json.load(open(d + "meta.json"))
    notes = open(d + "notes.md").read() if os.path.exists(d + "notes.md") else ""
    first = ""
    for ln in notes.splitlines():
        ln = ln.strip().lstrip("#* -").strip()
        if len(ln) > 25:
            first = ln
            break
    first = re.sub(r"\s+", " ", first)[:150]
    files = sorted(set(re.findall(r"^\+\+\+ b/(\S+)", open(d + "patch.diff").read(), re.M)))
    rows.append((m["id"], m["property"], ", ".join(files), first, ", ".join(m.get("detected_by") or []) or "—", "yes" if m.get("confirmed") else "no"))
print("| id | property | files | change (first line of its notes) | detected by (quick) | confirmed |")
print("|---|---|---|---|---|---|")
for r in rows:
    print("| %s | %s | %s | %s | %s | %s |" % r)

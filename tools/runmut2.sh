#!/bin/bash
# usage: runmut2.sh PROP...   evaluates /tmp/mut-PROP/out/{1,2,3} as round-2 ids
cd /verif
for p in "$@"; do
  for i in 1 2 3; do
    if [ -d /tmp/mut-$p/out/$i ]; then
      echo "== $p-r2m$i"; PGMC_NPROC=6 tools/mutant.py /tmp/mut-$p/out/$i $p $p-r2m$i ${EXTRA:-} 2>&1 | tail -4
    fi
  done
done

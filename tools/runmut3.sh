#!/bin/bash
# usage: runmut3.sh "PROP N EXTRA..." ...
cd /verif
for spec in "$@"; do
  set -- $spec; p=$1; i=$2; shift 2
  echo "== $p-r2m$i"; PGMC_NPROC=8 tools/mutant.py /tmp/mut-$p/out/$i $p $p-r2m$i "$@" 2>&1 | tail -4
done

import json,sys
pid=sys.argv[1]
n=sys.argv[2] if len(sys.argv)>2 else "2"
for l in open('/verif/properties.jsonl'):
    p=json.loads(l)
    if p['id']==pid: break
print(f"""You are helping test a verification effort by writing realistic *property-breaking* changes ("seeded defects") to the open-source project michael-lazar/pygopherd (a multi-protocol Gopher/Gopher+/HTTP/WAP/Gemini/Spartan file server in Python with a bundled simpleTAL template engine).

Your own scratch git worktree of the project is at /tmp/mut-{pid} . Work ONLY inside /tmp/mut-{pid} (never touch /repo or /verif, never read /verif). Python is /venv/bin/python. Run the project's tests with:
  cd /tmp/mut-{pid} && flock /tmp/pgmc-pytest.lock /venv/bin/python -m pytest -q -p no:cacheprovider --timeout=900
(keep the `flock`: the tests bind a fixed TCP port and other people run them in sibling worktrees at the same time.)
(the single test tests/handlers/test_zip.py::TestVFSZip::test_save_cache fails on the unmodified tree; that is expected. Everything else must pass.) When you run code, make sure `pygopherd.__file__` / `simpletal.__file__` resolve inside /tmp/mut-{pid} (run from that directory, or put it first on sys.path) — the venv also has an editable install pointing elsewhere.

THE PROPERTY that your changes must break:

  Title: {p['title']}
  Statement: {p['statement']}
  Quantified over: {p['quantifier']['text']}
  Relevant files: {', '.join(p['anchors']['files'])}
  Mechanisms meant to make it hold: {'; '.join(m['name']+' ('+m['where']+')' for m in p['anchors']['mechanism'])}

(ROUND8) Seven earlier rounds already produced about 285 changes across the project; everything ordinary has been tried: dropped or narrowed checks, changed boundaries and comparisons, un-escaped values, state hoisted to class/module/process scope, memoisation and caches, encoding and normalisation asymmetries, reordered start-up steps, modernisations (pathlib, f-strings, readline(n), TextIOWrapper), thread pools, temp-file-and-rename, non-default options one at a time, real-socket / real-process effects, digit-string keys, empty iterators, interactions of three things, counter arithmetic at unusual values, errors inside error paths, ordering assumptions, resource lifetimes on rare branches, Gopher+ / WAP / Spartan / Gemini / mailbox / gophermap-in-archive / TAL macro specifics. Do NOT repeat those. This round, read the code for the property slowly and look for: (1) an invariant that is established in one function and silently relied on in another (break the reliance, not the establishment); (2) behaviour that depends on HOW LONG, HOW MANY or HOW BIG (the 2nd..Nth item, the entry after a special one, a name longer than a buffer, a value at exactly a limit, the second request on a warm process, the request after a failed one); (3) behaviour that depends on the PLATFORM or deployment (running as root vs not, relative vs absolute paths, symlinked document root, a trailing slash in a configured path, a root of '/', IPv6 / empty interface, unusual but legal config spellings such as upper-case booleans or extra whitespace); (4) partial application of a correct rule (applied on one of several parallel code paths: one protocol, one handler, one VFS, the '+' / '!' / '$' Gopher+ forms, HEAD vs GET); (5) Python subtleties (mutable default arguments, late-binding closures, generator exhausted twice, `is` vs `==` on small ints/strings, bytes vs str keys, integer vs float times, exception chaining swallowing the original, `finally` overriding a return). The change must still look like something a maintainer would plausibly commit.

TASK: produce {n} DIFFERENT changes to the project's source (not its tests), each of which
  (a) still imports/compiles and passes the existing test-suite (run it, to be sure),
  (b) makes the property above false on the changed tree, and
  (c) needs something SPECIFIC to manifest — a particular interleaving, a fault or crash at a particular point, a multi-step sequence of operations, an unusual input or encoding, a particular configuration, or two cooperating sites that each look fine alone — rather than something any ordinary use would expose at once. Prefer changes that look like plausible refactorings, optimisations, or "harmless" clean-ups a real contributor might make (e.g. a changed comparison or boundary, a reordered step, state hoisted to a wider scope, a dropped or weakened check, a cache or shortcut, an encoding/decoding asymmetry), and make the {n} changes different in kind and in location from one another. Keep each change small (a few lines).

For each change i = 1..{n} write, under /tmp/mut-{pid}/out/<i>/ :
  - patch.diff : the change as a unified diff that applies with `git apply` at the root of a clean checkout of your worktree's HEAD (produce it with `git diff`, then `git checkout -- .` so the next change starts from a clean tree);
  - demo.py : a small self-contained program, run as `cd <checkout> && /venv/bin/python out/<i>/demo.py` or with the checkout path as argv[1], that exits 0 on the unmodified tree and exits non-zero (printing what went wrong) when patch.diff is applied — i.e. it demonstrates the property violation. It must build whatever content/config it needs in a temporary directory (clean up after itself) and must not depend on network access. Look at pygopherd/testutil.py and the tests for how to drive the server in-process.
  - notes.md : 5-10 lines: what the change is, why it breaks the property, and exactly what it needs in order to manifest.

Verify for each change yourself: tests pass with the patch applied; demo.py fails with the patch and passes without it. Leave the worktree clean (no applied patch) when you finish. Do NOT use `git stash` (the stash is shared by all worktrees of the repository and other people work in sibling worktrees); use `git diff > file`, `git checkout -- .` and `git apply` instead. In your final answer, list for each change a one-line summary and the verification results.""")

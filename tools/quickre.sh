#!/bin/bash
# usage: quickre.sh <seeded id> [checks...] : apply a stored change in a scratch worktree and run only the named
# checks (default: its own property) against it; prints "<id> <check> rc=<n>".  No pytest, nothing is stored.
sid=$1; shift
prop=${sid%%-*}
checks=${@:-$prop}
wt=/tmp/qr-$sid
git -C /repo worktree remove --force $wt >/dev/null 2>&1
git -C /repo worktree add -q --detach $wt HEAD || exit 3
if ! git -C $wt apply /verif/seeded/$sid/patch.diff; then echo "$sid DOES-NOT-APPLY"; git -C /repo worktree remove --force $wt; exit 3; fi
for c in $checks; do
  out=$(cd /verif && PGMC_REPO=$wt PGMC_EVIDENCE_DIR=/tmp/qr-ev-$sid PGMC_REPLAY_DIR=/tmp/qr-ev-$sid/r PGMC_NPROC=${PGMC_NPROC:-4} timeout -k 5 1500 ./check $c --tier quick 2>&1)
  echo "$sid $c rc=$? $(echo "$out" | grep -c '^VIOLATION') violations"
done
rm -rf /tmp/qr-ev-$sid
git -C /repo worktree remove --force $wt

#!/venv/bin/python
"""tools/benign.py <src dir with patch.diff notes.md> <id> [check ids... default: all]

The opposite of tools/mutant.py: a change that is meant to KEEP every property.  In a scratch
worktree: the change applies and the repository's tests pass; then every check is run against
the changed tree (PGMC_REPO) and must stay silent.  Stored under /verif/benign/<id>/.
"""
import json
import os
import re
import shutil
import subprocess
import sys

VERIF = os.path.dirname(os.path.dirname(os.path.abspath(__file__)))
ALL = ["C%02d" % i for i in range(1, 21)]


def sh(cmd, cwd=None, timeout=3600, env=None):
    p = subprocess.run(cmd, shell=True, cwd=cwd, stdout=subprocess.PIPE, stderr=subprocess.STDOUT, text=True, errors="replace", timeout=timeout, env=env)
    return p.returncode, p.stdout


def main():
    src, sid = sys.argv[1:3]
    checks = sys.argv[3:] or ALL
    patch = os.path.abspath(os.path.join(src, "patch.diff"))
    wt = "/tmp/bv-%s" % sid
    sh("git -C /repo worktree remove --force %s" % wt)
    rc, out = sh("git -C /repo worktree add -q --detach %s HEAD" % wt)
    assert rc == 0, out
    meta = {"id": sid, "source": src}
    results = {}
    try:
        rc, out = sh("git apply %s" % patch, cwd=wt)
        meta["applies"] = rc == 0
        if rc != 0:
            print("PATCH DOES NOT APPLY", out)
            return
        rct, ot = sh("flock /tmp/pgmc-pytest.lock /venv/bin/python -m pytest -q -p no:cacheprovider --timeout=900 --deselect tests/handlers/test_zip.py::TestVFSZip::test_save_cache 2>&1 | tail -3", cwd=wt)
        m = re.search(r"(\d+) passed", ot)
        meta["tests_passed_with_change"] = int(m.group(1)) if m else None
        meta["tests_tail"] = ot.strip().splitlines()[-1] if ot.strip() else ""
        print(meta["tests_tail"])
        sh("git clean -fdq", cwd=wt)
        ev = "/tmp/bv-%s-ev" % sid
        cenv = dict(os.environ, PGMC_REPO=wt, PGMC_EVIDENCE_DIR=ev, PGMC_REPLAY_DIR=ev + "/replays")
        for cid in checks:
            rcc, oc = sh("timeout -k 5 1200 ./check %s --tier quick" % cid, cwd=VERIF, timeout=1300, env=cenv)
            viol = [l for l in oc.splitlines() if l.startswith("VIOLATION")]
            first = ""
            for i, l in enumerate(oc.splitlines()):
                if l.startswith("VIOLATION"):
                    first = " | ".join(x.strip() for x in oc.splitlines()[i + 1:i + 3])[:600]
                    break
            results[cid] = {"exit": rcc, "violation_lines": len(viol), "first": first, "summary": oc.strip().splitlines()[-1][:300] if oc.strip() else ""}
            if rcc != 0:
                print(cid, "exit", rcc, "violations", len(viol), first[:500])
        sh("rm -rf %s" % ev)
    finally:
        sh("git -C /repo worktree remove --force %s" % wt)
    meta["checks"] = results
    meta["alarms"] = [c for c, r in results.items() if r["exit"] != 0]
    dst = os.path.join(VERIF, "benign", sid)
    os.makedirs(dst, exist_ok=True)
    for f in ("patch.diff", "notes.md"):
        if os.path.exists(os.path.join(src, f)):
            shutil.copy(os.path.join(src, f), os.path.join(dst, f))
    with open(os.path.join(dst, "meta.json"), "w") as f:
        json.dump(meta, f, indent=1)
    print(sid, "alarms:", meta["alarms"], "tests:", meta.get("tests_tail"))


main()

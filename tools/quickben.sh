#!/bin/bash
# usage: quickben.sh <benign id> checks... : apply a stored property-preserving change in a scratch worktree and run
# the named checks against it; every line must say rc=0.  No pytest, nothing is stored.
bid=$1; shift
wt=/tmp/qb-$bid
git -C /repo worktree remove --force $wt >/dev/null 2>&1
git -C /repo worktree add -q --detach $wt HEAD || exit 3
if ! git -C $wt apply /verif/benign/$bid/patch.diff; then echo "$bid DOES-NOT-APPLY"; git -C /repo worktree remove --force $wt; exit 3; fi
for c in "$@"; do
  out=$(cd /verif && PGMC_REPO=$wt PGMC_EVIDENCE_DIR=/tmp/qb-ev-$bid PGMC_REPLAY_DIR=/tmp/qb-ev-$bid/r PGMC_NPROC=${PGMC_NPROC:-4} timeout -k 5 1500 ./check $c --tier quick 2>&1)
  rc=$?
  echo "$bid $c rc=$rc $(echo "$out" | grep -A2 '^VIOLATION' | head -3 | tr '\n' ' ' | cut -c1-300)"
done
rm -rf /tmp/qb-ev-$bid
git -C /repo worktree remove --force $wt

#!/bin/bash
# usage: runben.sh B1 ...   : evaluate out/1..5 of /tmp/ben-<name> with every check
cd /verif
for b in "$@"; do
  for i in 1 2 3 4 5; do
    [ -f /tmp/ben-$b/out/$i/patch.diff ] || continue
    echo "== $b-$i"; PGMC_NPROC=5 tools/benign.py /tmp/ben-$b/out/$i $b-$i 2>&1 | tail -6
  done
done

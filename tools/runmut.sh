#!/bin/bash
# usage: runmut.sh PROP...   evaluates /tmp/mut-PROP/out/{1,2,3}
cd /verif
for p in "$@"; do
  for i in 1 2 3; do
    if [ -d /tmp/mut-$p/out/$i ]; then
      echo "== $p-m$i"; PGMC_NPROC=5 tools/mutant.py /tmp/mut-$p/out/$i $p $p-m$i 2>&1 | tail -4
    fi
  done
done

"""Reference models written from the documented behaviour (not from the code)."""
from __future__ import annotations

import re

SHIPPED_ORDER = ["wap", "gemini", "http", "https", "spartan", "gopherp", "sgopherp", "gopher", "sgopher"]
CLASSNAME = {
    "wap": "WAPProtocol", "gemini": "GeminiProtocol", "http": "HTTPProtocol", "https": "HTTPSProtocol",
    "spartan": "SpartanProtocol", "gopherp": "GopherPlusProtocol", "sgopherp": "SecureGopherPlusProtocol",
    "gopher": "GopherProtocol", "sgopher": "SecureGopherProtocol",
}
SECURE = {"wap": False, "gemini": True, "http": False, "https": True, "spartan": False,
          "gopherp": False, "sgopherp": True, "gopher": False, "sgopher": True}
FAMILY = {"wap": "wap", "gemini": "gemini", "http": "http", "https": "http", "spartan": "spartan",
          "gopherp": "gopherp", "sgopherp": "gopherp", "gopher": "gopher", "sgopher": "gopher"}


def _http_shape(line: str):
    """HTTP/1.0 simple request line: METHOD SP path SP HTTP/x — exactly three
    single-space separated fields (surrounding blanks of a field ignored)."""
    parts = [p.strip() for p in line.split(" ")]
    if len(parts) != 3:
        return None
    if parts[0] not in ("GET", "HEAD"):
        return None
    if not parts[2].startswith("HTTP/"):
        return None
    return parts


def parse_headers(block: bytes):
    """Header block following the request line -> {lowercased name: value}."""
    hdrs = {}
    for raw in block.split(b"\n"):
        ln = raw.decode("utf-8", "surrogateescape").strip()
        if not ln:
            break
        if ":" in ln:
            k, v = ln.split(":", 1)
            hdrs[k.lower()] = v
    return hdrs


def accepts(proto: str, line: str, tls: bool, headers: dict, waptop="/wap") -> bool:
    """Does `line` (str, surrogateescape-decoded, with terminator) have the
    documented request shape of `proto` on a connection of the given TLS-ness?"""
    if SECURE[proto] != tls:
        return False
    if proto in ("http", "https"):
        return _http_shape(line) is not None
    if proto == "wap":
        parts = _http_shape(line)
        if parts is None:
            return False
        if parts[1] == waptop or parts[1].startswith((waptop + "/", waptop + "?")):
            return True
        acc = headers.get("accept")
        if acc is None or not re.search(r"[, ]text/vnd.wap.wml", acc):
            return False
        return "x-wap-profile" in headers or "x-up-devcap-max-pdu" in headers
    if proto == "gemini":
        return line.startswith("gemini://")
    if proto == "spartan":
        try:
            line.encode("ascii")
        except UnicodeEncodeError:
            return False
        parts = line.strip().split(" ")
        return len(parts) == 3 and all(parts) and parts[2].isdigit()
    fields = [f.strip() for f in line.split("\t")]
    if proto in ("gopherp", "sgopherp"):
        if len(fields) == 2:
            g = fields[1]
        elif len(fields) == 3:
            g = fields[2]
        else:
            return False
        return g == "!" or g.startswith("+") or g.startswith("$")
    if proto in ("gopher", "sgopher"):
        return True
    raise ValueError(proto)


def classify(line: str, tls: bool, header_block: bytes = b"", order=None):
    order = order or SHIPPED_ORDER
    hdrs = parse_headers(header_block)
    for p in order:
        if accepts(p, line, tls, hdrs):
            return p
    return None

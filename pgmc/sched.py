"""E3 — cooperative scheduler and preemption-bounded stateless DFS.

Each task runs real pygopherd code in its own thread but only while it holds
the baton.  Scheduling points are placed before every operation on state shared
between requests:

  * the VFS seam (stat/open/listdir/exists/isfile/isdir) for paths selected by
    the harness (cache files, directory enumeration), and every read/write/close
    of a cache file object (writes are split in chunks and flushed so that the
    on-disk prefix is observable);
  * every *line* (sys.settrace) of the code objects that touch module-level
    lazily initialised tables.

Operations on immutable content commute with everything and are not points.
Exploration: run(prefix) replays the choices in `prefix`, then always takes
choice 0 (keep running the current task if still enabled, else the lowest id);
every later point is branched on while the preemption budget lasts.  A prefix
that cannot be replayed is a hard harness error.
"""
from __future__ import annotations

import sys
import threading

from .core import HarnessError

_active = None  # the Execution currently running (one per process at a time)


def active():
    return _active


class Execution:
    def __init__(self, funcs, prefix, traced=None, first_free=True):
        self.funcs = funcs
        self.n = len(funcs)
        self.prefix = list(prefix)
        self.sems = [threading.Semaphore(0) for _ in funcs]
        self.done = [False] * self.n
        self.results = [None] * self.n
        self.choices = []
        self.points = []  # (enabled ids, running-still-enabled, label)
        self.main = threading.Semaphore(0)
        self.ident = {}
        self.traced = traced or {}
        self.diverged = None
        self.steps = 0
        self.calls = {}

    # -- decisions -------------------------------------------------------
    def _decide(self, cur, label):
        if cur is not None and not self.done[cur]:
            enabled = [cur] + [i for i in range(self.n) if i != cur and not self.done[i]]
            cur_enabled = True
        else:
            enabled = [i for i in range(self.n) if not self.done[i]]
            cur_enabled = False
        if not enabled:
            return None
        if len(enabled) == 1:
            return enabled[0]
        k = len(self.choices)
        if k < len(self.prefix):
            c = self.prefix[k]
            if c >= len(enabled):
                self.diverged = "choice %d at point %d out of range (%d enabled) at %r" % (c, k, len(enabled), label)
                c = 0
        else:
            c = 0
        self.points.append((tuple(enabled), cur_enabled, label))
        self.choices.append(c)
        return enabled[c]

    def me(self):
        return self.ident.get(threading.get_ident())

    def point(self, label):
        me = self.me()
        if me is None:
            return
        self.steps += 1
        nxt = self._decide(me, label)
        if nxt != me:
            self.sems[nxt].release()
            self.sems[me].acquire()

    # -- tasks -----------------------------------------------------------
    def _tracer(self, frame, event, arg):
        spec = self.traced.get(frame.f_code)
        if spec is None:
            return None
        first = frame.f_code.co_firstlineno
        limit, pred = (spec[0], spec[1]) if isinstance(spec, tuple) else (spec, None)
        maxcalls = spec[2] if isinstance(spec, tuple) and len(spec) > 2 else None
        if maxcalls is not None:
            # trace only the first `maxcalls` invocations per task: that is where a lazily
            # initialised table can still be observed half-built
            key = (threading.get_ident(), frame.f_code)
            n = self.calls.get(key, 0) + 1
            self.calls[key] = n
            if n > maxcalls:
                return None

        def local(frame, event, arg):
            if event == "line":
                rel = frame.f_lineno - first
                if (limit is None or rel <= limit) and (pred is None or (pred(frame) if pred.__code__.co_argcount else pred())):
                    self.point(("line", frame.f_code.co_name, rel))
            return local

        return local

    def _task(self, i):
        self.ident[threading.get_ident()] = i
        self.sems[i].acquire()
        if self.traced:
            sys.settrace(self._tracer)
        try:
            self.results[i] = ("ok", self.funcs[i]())
        except BaseException as e:  # noqa
            self.results[i] = ("exc", e)
        finally:
            sys.settrace(None)
            self.done[i] = True
            nxt = self._decide(None, ("end", i))
            if nxt is None:
                self.main.release()
            else:
                self.sems[nxt].release()

    def run(self, timeout=60):
        global _active
        if _active is not None:
            raise HarnessError("nested scheduler executions")
        _active = self
        try:
            threads = [threading.Thread(target=self._task, args=(i,), daemon=True) for i in range(self.n)]
            for t in threads:
                t.start()
            first = self._decide(None, ("start",))
            self.sems[first].release()
            if not self.main.acquire(timeout=timeout):
                raise HarnessError("scheduler execution did not finish in %ds (deadlock or runaway): choices %r" % (timeout, self.choices))
            for t in threads:
                t.join(timeout=5)
        finally:
            _active = None
        if self.diverged:
            raise HarnessError("schedule prefix could not be replayed: " + self.diverged)
        return self

    def preemptions_before(self, i):
        return sum(1 for j in range(i) if self.points[j][1] and self.choices[j] != 0)

    def preemptions(self):
        return self.preemptions_before(len(self.points))


def explore(make_funcs, bound, on_execution, traced=None, cap=None, roots=None):
    """Preemption-bounded DFS.  make_funcs() -> list of callables on a reset world.
    on_execution(execution) is called for every complete execution.
    roots: optional list of initial prefixes (to shard the top-level choice).
    Returns (executions, capped)."""
    stack = [list(r) for r in (roots if roots is not None else [[]])]
    stack.reverse()
    count = 0
    capped = False
    while stack:
        prefix = stack.pop()
        x = Execution(make_funcs(), prefix, traced=traced).run()
        count += 1
        on_execution(x)
        if cap is not None and count >= cap:
            capped = bool(stack)
            break
        lo = len(prefix)
        for i in range(lo, len(x.points)):
            enabled, cur_enabled, _ = x.points[i]
            cost = x.preemptions_before(i) + (1 if cur_enabled else 0)
            if cost > bound:
                continue
            for alt in range(1, len(enabled)):
                stack.append(x.choices[:i] + [alt])
    return count, capped


# ---------------------------------------------------------------------------
# seams
# ---------------------------------------------------------------------------

_installed = False
_select = None  # callable(selector:str) -> bool : is this path shared mutable state?


class _FileProxy:
    """Cache-file object whose every read/write/close is a scheduling point and
    whose writes reach the disk in chunks."""

    def __init__(self, f, name, chunks=3):
        self._f = f
        self._name = name
        self._chunks = chunks

    def write(self, data):
        x = active()
        data = bytes(data)
        if x is None or x.me() is None:
            return self._f.write(data)
        n = len(data)
        step = max(1, -(-n // self._chunks))
        pos = 0
        while pos < n:
            x.point(("write", self._name, pos))
            self._f.write(data[pos:pos + step])
            self._f.flush()
            pos += step
        return n

    def read(self, *a):
        x = active()
        if x is not None:
            x.point(("read", self._name))
        return self._f.read(*a)

    def readline(self, *a):
        x = active()
        if x is not None:
            x.point(("readline", self._name))
        return self._f.readline(*a)

    def readinto(self, b):
        x = active()
        if x is not None:
            x.point(("readinto", self._name))
        return self._f.readinto(b)

    def close(self):
        x = active()
        if x is not None:
            x.point(("close", self._name))
        return self._f.close()

    def __enter__(self):
        return self

    def __exit__(self, *a):
        self.close()
        return False

    def __getattr__(self, name):
        return getattr(self._f, name)


def install(select):
    """Wrap VFS_Real's operations (once per process); `select` picks the selectors
    whose operations are scheduling points."""
    global _installed, _select
    _select = select
    if _installed:
        return
    from pygopherd.handlers.base import VFS_Real

    def wrap(name):
        orig = getattr(VFS_Real, name)

        def wrapper(self, selector, *a, **k):
            x = _active
            if x is not None and type(self) is VFS_Real and _select is not None and _select(name, selector):
                x.point((name, selector))
                if name == "open":
                    f = orig(self, selector, *a, **k)
                    return _FileProxy(f, selector)
            return orig(self, selector, *a, **k)

        wrapper.__name__ = name
        setattr(VFS_Real, name, wrapper)

    for name in ("stat", "open", "listdir", "exists", "isfile", "isdir", "unlink"):
        wrap(name)
    _installed = True

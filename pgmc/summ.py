"""Summarise replay files of a property by violation class (developer tool)."""
import collections
import glob
import json
import re
import sys


def main():
    prop = sys.argv[1]
    c = collections.Counter()
    ex = {}
    for f in glob.glob("/verif/replays/%s/*.json" % prop):
        d = json.load(open(f))
        k = d["key"] if isinstance(d["key"], str) else str(d["key"])
        parts = k.split("|")
        det = re.sub(r"/dev/shm/[^/]+/[^/]+/", "<scratch>/", str(d["detail"]))[:100]
        cls = (parts[0], parts[-1], det)
        c[cls] += 1
        ex.setdefault(cls, k)
    for k, v in c.most_common(int(sys.argv[2]) if len(sys.argv) > 2 else 40):
        print(v, k)
        print("     e.g.", ex[k][:220])


main()

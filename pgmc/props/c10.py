"""C10 — the directory cache is transparent and never older than its lifetime.

E4: explicit-state breadth-first search over operation histories on a live
world under a virtual clock.  A state is the history that reaches it (rebuilt on
a fresh world each time); states are de-duplicated on a canonical digest of
(directory contents, cache entries as the server pickled them, cache age capped
at the lifetime, lifetime).  Every list operation is compared with an explicit
cache model whose 'fresh' answers come from a twin server (same tree, caching
off, different cache-file name).
"""
from __future__ import annotations

import os
import pickle

from .. import core, rig
from .c03 import _norm

ID = "C10"

PROTOS = ["gopher", "gopherp_dir", "http", "gemini"]
CACHE = ".cache.pygopherd.dir"
T0 = 4_000_000_000  # later than any real mtime, so a file the harness has not re-stamped is never "from the future"

NAMES_A = b"Path=./a.txt\nName=Alpha\nNumb=1\n"
NAMES_B = b"Path=./a.txt\nName=Omega\nNumb=-1\n\nName=Extra\nType=1\nPath=/d/sub\nHost=+\nPort=+\n"
# fields that are set, but to the empty string
NAMES_C = b"Path=./b.txt\nName=\nNumb=2\n\nName=Empty Host\nType=1\nPath=/eh\nHost=\nPort=70\n"
DAY = 86400


def ops_for(L):
    ops = [("list", p) for p in PROTOS] + [("head",), ("create",), ("delete",), ("rename",), ("names",)]
    # both sides of the lifetime, and the same a day later (an age whose seconds-of-day part is small again)
    ticks = sorted({t for t in (1, L - 1, L, L + 1, DAY + 1) if t > 0})
    return ops + [("tick", t) for t in ticks]


class _Clock:
    """Virtual clock.  Time also passes *during* a request (a slow client): every
    reading after the first one within a request is one second later."""

    def __init__(self):
        self.now = T0
        self.reads = 0

    def time(self):
        v = float(self.now + self.reads)
        self.reads += 1
        return v

    def settle(self):
        """End of a request: the time that passed during it has passed."""
        self.now += max(0, self.reads - 1)
        self.reads = 0

    def __getattr__(self, name):
        import time

        return getattr(time, name)


CLOCK = _Clock()
_clock_installed = False


def _install_clock():
    global _clock_installed
    if not _clock_installed:
        import pygopherd.handlers.dir as d

        d.time = CLOCK
        _clock_installed = True


def _initial_spec():
    return {"d": {"a.txt": b"A\n", "b.txt": b"BB\n", "sub": {"x.txt": b"x\n"}, "a.txt.abstract": b"about a\n", "empty.txt": b"",
                  ".links": b"Name=Port Zero\nType=1\nPath=/z\nHost=zero.example\nPort=0\nNumb=0\n"}}


class _Sys:
    """The system under test + its twin + the cache model, driven by operations."""

    def __init__(self, L):
        _install_clock()
        CLOCK.now = T0
        self.L = L
        self.w = rig.World(_initial_spec(), handlers="default", cachetime=L, tag="c10")
        self.twin_cfg = rig.make_config(self.w.root, handlers="default", cachetime=0, handlers_DOT_dir_DOT_DirHandler__cachefile=".cache.twin")
        self.twin = rig.make_server(self.twin_cfg)
        self.d = os.path.join(self.w.root, "d")
        self.cpath = os.path.join(self.d, CACHE)
        self.model = None  # (birth, {proto: listing})
        self.names_state = 0
        self.trace = []
        # which protocols have looked at the current cache entry (writer first): anything a server
        # process remembers about an entry can only depend on who has touched it
        self.readers = ()

    def destroy(self):
        self.w.destroy()

    def _twin_listing(self, p):
        data, tls = rig.request(p, "/d")
        rig.reset_lazies()
        CLOCK.reads = 0
        r = rig.serve(self.twin, data, tls)
        CLOCK.reads = 0
        if r.internal_error:
            raise core.HarnessError("twin failed: %s" % r.describe_error())
        return _norm(r.out)

    def _cache_sig(self):
        try:
            st = os.stat(self.cpath)
        except OSError:
            return None
        return (st.st_mtime_ns, st.st_size, st.st_ino)

    def apply(self, op):
        """-> None or (class, detail)"""
        kind = op[0]
        if kind == "tick":
            CLOCK.now += op[1]
            return None
        if kind == "create":
            p = os.path.join(self.d, "n.txt")
            if not os.path.exists(p):
                rig.write_file(p, b"new\n", mtime=T0)
            return None
        if kind == "delete":
            p = os.path.join(self.d, "a.txt")
            if os.path.exists(p):
                os.unlink(p)
            return None
        if kind == "rename":
            s, t = os.path.join(self.d, "b.txt"), os.path.join(self.d, "c.txt")
            if os.path.exists(s):
                os.rename(s, t)
            elif os.path.exists(t):
                os.rename(t, s)
            return None
        if kind == "names":
            self.names_state = (self.names_state + 1) % 4
            p = os.path.join(self.d, ".names")
            if self.names_state == 0:
                if os.path.exists(p):
                    os.unlink(p)
            else:
                rig.write_file(p, {1: NAMES_A, 2: NAMES_B, 3: NAMES_C}[self.names_state], mtime=T0)
            return None
        if kind == "head":
            return self._head()
        # list
        proto = op[1]
        now = CLOCK.now
        must_miss = self.L == 0 or self.model is None or now - self.model[0] >= self.L
        if must_miss:
            expected = self._twin_listing(proto)
            newmodel = (now, {q: self._twin_listing(q) for q in PROTOS})
        else:
            expected = self.model[1][proto]
            newmodel = self.model
        before = self._cache_sig()
        data, tls = rig.request(proto, "/d")
        rig.reset_lazies()
        CLOCK.reads = 0
        r = self.w.serve(data, tls)
        CLOCK.settle()
        after = self._cache_sig()
        bad = None
        if r.internal_error:
            bad = ("error", r.describe_error())
        elif _norm(r.out) != expected:
            what = "regenerated listing" if must_miss else "cached listing written at t=%d (age %d < lifetime %d)" % (self.model[0] - T0, now - self.model[0], self.L)
            bad = ("wrong-listing", "list via %s at t=%d: expected the %s %r, got %r" % (proto, now - T0, what, expected[:300], _norm(r.out)[:300]))
        if after != before:
            # the server (re)wrote or touched the cache file: its age restarts now
            if after is not None:
                os.utime(self.cpath, (now, now))
            if not must_miss and bad is None:
                bad = ("refreshed-on-hit", "serving from the cache at t=%d modified the cache file (age was %d)" % (now - T0, now - self.model[0]))
        elif must_miss and self.L > 0 and bad is None and after is None:
            bad = ("not-cached", "a miss with lifetime %d left no cache file" % self.L)
        elif must_miss and self.L > 0 and bad is None:
            bad = ("not-rewritten", "a miss at t=%d did not rewrite the cache file" % (now - T0))
        self.model = newmodel if self.L > 0 else None
        if must_miss:
            self.readers = (proto,)
        elif proto not in self.readers:
            self.readers = self.readers + (proto,)
        return bad

    def _head(self):
        """HTTP HEAD of the directory: no listing is produced.  Whatever the server does to the cache file
        must be consistent with the model: untouched, or (on a miss only) a complete rewrite."""
        now = CLOCK.now
        must_miss = self.L == 0 or self.model is None or now - self.model[0] >= self.L
        before = self._cache_sig()
        rig.reset_lazies()
        CLOCK.reads = 0
        r = self.w.serve(b"HEAD /d HTTP/1.0\r\n\r\n", False)
        CLOCK.settle()
        after = self._cache_sig()
        if r.internal_error:
            return ("error", r.describe_error())
        if not r.out.startswith(b"HTTP/1.0 200"):
            return ("wrong-listing", "HEAD /d answered %r" % r.out[:80])
        if after != before:
            if after is not None:
                os.utime(self.cpath, (now, now))
            if not must_miss:
                return ("refreshed-on-hit", "a HEAD request at t=%d modified the cache file (age was %d)" % (now - T0, now - self.model[0]))
            # the entry is as young as a rewrite at `now`: it must hold the directory as it is now
            self.model = (now, {q: self._twin_listing(q) for q in PROTOS}) if self.L > 0 else None
            self.readers = ("head",)
        return None

    def probe_unreadable(self):
        """The directory cannot be read right now (permissions changed under the server, a file system hiccup):
        os.listdir fails.  An entry older than the lifetime is not an answer then either.  (Run at the end of a
        history; on a miss nothing is written, so the state is not changed by it.)"""
        now = CLOCK.now
        must_miss = self.L == 0 or self.model is None or now - self.model[0] >= self.L
        if not must_miss:
            return None
        real = os.listdir
        target = os.path.realpath(self.d)

        def listdir(path="."):
            try:
                hit = os.path.realpath(os.fsdecode(path)) == target
            except (TypeError, ValueError):
                hit = False
            if hit:
                raise PermissionError(13, "Permission denied", os.fsdecode(path))
            return real(path)

        os.listdir = listdir
        try:
            rig.reset_lazies()
            CLOCK.reads = 0
            r = self.w.serve(b"/d\r\n", False)
            CLOCK.reads = 0
        finally:
            os.listdir = real
        if not r.internal_error and b"\t/d/" in r.out:
            age = "no entry in the model" if self.model is None else "age %d, lifetime %d" % (now - self.model[0], self.L)
            return ("stale-entry-used", "the directory cannot be listed (EACCES) and the cache entry is not usable (%s), yet the answer is a listing: %r" % (age, r.out[:200]))
        return None

    def _age_class(self, age):
        """Ages are merged only where no reading of "older than the lifetime" can tell them apart: exact below the
        lifetime, one class up to a day, and exact again for the first `lifetime` seconds of the next day (an age
        whose seconds-of-day part is small is a different state for anything that drops the days)."""
        if age < self.L:
            return age
        if age < DAY:
            return "old"
        if age < 2 * DAY:
            return ("day+", min(age - DAY, self.L))
        return "ancient"

    def canon(self):
        """Canonical, path-independent digest of the property-relevant state."""
        tree = rig.tree_digest(self.d, skip=(CACHE.encode(), b".cache.twin"))
        cache = None
        age = None
        if os.path.exists(self.cpath):
            try:
                with open(self.cpath, "rb") as f:
                    entries = pickle.load(f)
                # (the selector the entries were generated for travels with them)
                tag = None
                if isinstance(entries, tuple) and len(entries) == 2 and isinstance(entries[1], list):
                    tag, entries = entries
                elif isinstance(entries, dict) and isinstance(entries.get("entries"), list):
                    tag, entries = entries.get("for"), entries["entries"]
                cache = core.h64(repr(tag), repr([sorted((k, repr(v)) for k, v in vars(e).items() if k not in ("config", "ctime", "mtime")) for e in entries]))
            except Exception:  # noqa
                # not the format this harness knows how to look into: the raw bytes (finer than needed, never coarser)
                with open(self.cpath, "rb") as f:
                    cache = core.h64(f.read())
            age = self._age_class(CLOCK.now - int(os.stat(self.cpath).st_mtime))
        mdl = None
        if self.model is not None:
            mdl = (self._age_class(CLOCK.now - self.model[0]), core.h64(repr(sorted(self.model[1].items()))))
        return core.h64(self.L, tree, cache, age, mdl, self.names_state, self.readers[:1], tuple(sorted(self.readers[1:])))


def run_history(L, hist):
    """-> (violation or None, canonical key, index of the failing op)"""
    s = _Sys(L)
    try:
        for i, op in enumerate(hist):
            bad = s.apply(tuple(op))
            if bad:
                return bad, None, i
        key = s.canon()
        bad = s.probe_unreadable()
        if bad:
            return bad, None, len(hist) - 1
        return None, key, None
    finally:
        s.destroy()


def _shard(shard, seed, tier):
    part = core.Partial()
    L, items = shard
    ops = ops_for(L)
    out = []
    for hist in items:
        for op in ops:
            h2 = list(hist) + [op]
            bad, key, idx = run_history(L, h2)
            part.evaluations += 1
            part.transitions += len(h2)
            if bad:
                part.violation("L=%d|%s|%s" % (L, " ".join(_opname(o) for o in h2[: idx + 1]), bad[0]), bad[1], {"L": L, "hist": [list(o) for o in h2[: idx + 1]]})
                part.outcome(L, bad[0])
            else:
                out.append((key, h2))
                part.outcome(L, op[0], "ok")
    part.extra["next"] = out
    return part


REAL_CASES = ["control", "stall-wap", "stall-http-headers", "stall-spartan", "chmod-cache", "hardlink-cache", "touch-directory"]


def _shard_real(shard, seed, tier):
    """Real time, real sockets, a real file system (lifetime 3 s): an entry that is older than the lifetime when
    the server consults it is not used -- whenever the request began, and whatever happened to the cache file's
    inode in between."""
    import socket
    import time

    from .. import deploy

    part = core.Partial()
    for case in shard:
        L = 3
        srv = deploy.Server({"d": {"a.txt": b"A\n", "b.txt": b"B\n"}}, {"servertype": "ForkingTCPServer", "cachetime": L}, handlers="default", tag="c10r")
        bad = None
        try:
            if not srv.started:
                bad = ("no-start", "deployment did not come up: %r" % srv.log()[-300:])
            else:
                first, _ = srv.fetch(b"/d\r\n")
                t0 = time.time()
                cpath = os.path.join(srv.root, "d", CACHE)
                if b"a.txt" not in first or not os.path.exists(cpath):
                    raise core.HarnessError("first listing / cache file missing: %r" % first[:80])
                again, _ = srv.fetch(b"/d\r\n")
                rig.write_file(os.path.join(srv.root, "d", "n.txt"), b"new\n")
                os.chmod(os.path.join(srv.root, "d", "n.txt"), 0o644)
                hit, _ = srv.fetch(b"/d\r\n")
                if time.time() - t0 > 2.0:
                    # a machine so loaded that the preparation took most of the lifetime: the entry may have been
                    # rewritten legitimately in the meantime; count from the file's own time stamp
                    try:
                        t0 = max(t0, os.stat(cpath).st_mtime)
                    except OSError:
                        pass
                if b"n.txt" in hit:
                    part.count("real_case_without_cache_hit")  # the premise (a live cache entry) does not hold: nothing to learn
                if case == "chmod-cache":
                    time.sleep(1.0)
                    os.chmod(cpath, os.stat(cpath).st_mode & 0o7777)
                elif case == "hardlink-cache":
                    time.sleep(1.0)
                    os.link(cpath, os.path.join(srv.base, "snapshot-of-cache"))
                elif case == "touch-directory":
                    time.sleep(1.0)
                    os.utime(os.path.join(srv.root, "d"))
                if case.startswith("stall"):
                    time.sleep(max(0.0, t0 + L - 0.7 - time.time()))
                    s0 = socket.create_connection(("127.0.0.1", srv.port), timeout=15)
                    first_part, rest = {"stall-wap": (b"GET /wap/d HTTP/1.0\r\n", b"\r\n"), "stall-http-headers": (b"GET /d HTTP/1.0\r\nAccept: text/vnd.wap.wml\r\n", b"X-Late: 1\r\n\r\n"),
                                        "stall-spartan": (b"gopher.test /d 5\r\n", b"abcde")}[case]
                    s0.sendall(first_part)
                    time.sleep(max(0.0, t0 + L + 0.6 - time.time()))
                    s0.sendall(rest)
                    late = b""
                    while True:
                        ch = s0.recv(65536)
                        if not ch:
                            break
                        late += ch
                    s0.close()
                else:
                    time.sleep(max(0.0, t0 + L + 0.6 - time.time()))
                    late, _ = srv.fetch(b"/d\r\n")
                if b"n.txt" not in late:
                    bad = ("stale-entry-used", "lifetime %d s: a listing consulted %.1f s after the entry was written still comes from it (no n.txt): %r" % (L, time.time() - t0, late[:200]))
        finally:
            srv.stop()
        part.evaluations += 1
        part.transitions += 5
        part.state("real", case)
        part.outcome("real", case, bad[0] if bad else "")
        if bad:
            part.violation("real|%s|%s" % (case, bad[0]), bad[1], {"real": case})
    return part


def _opname(o):
    return o[0] + (":" + str(o[1]) if len(o) > 1 else "")


def replay(case):
    if "real" in case:
        p = _shard_real([case["real"]], 0, "quick")
        return (p.violations[0][0], p.violations[0][1]) if p.violations else None
    bad, _, _ = run_history(case["L"], [tuple(o) for o in case["hist"]])
    return bad


def run(ck):
    ck.pmap(_shard_real, [[c] for c in REAL_CASES])
    depth = 5 if ck.tier == "quick" else 8
    cap_states = 12000 if ck.tier == "quick" else 40000
    total_states = 0
    for L in (10, 0):
        seen = set()
        frontier = [[]]
        d = 0
        maxd = depth if L else min(depth, 4)
        while frontier and d < maxd:
            d += 1
            shards = [(L, ch) for ch in core.chunks(frontier, core.NPROC * 2)]
            p = ck.pmap(_shard, shards)
            nxt = []
            for key, h in sorted(p.extra.get("next", []), key=lambda kh: (len(kh[1]), [_opname(o) for o in kh[1]])):
                if key not in seen:
                    seen.add(key)
                    nxt.append(h)
            ck.total.extra.pop("next", None)
            if len(seen) > cap_states:
                ck.caps.append("state cap %d reached at depth %d for lifetime %d" % (cap_states, d, L))
                break
            frontier = nxt
        for k in seen:
            ck.total.states.add(k)
        total_states += len(seen)
        ck.notes.append("lifetime %d: BFS to depth %d, %d distinct canonical states, frontier at the end %d" % (L, d, len(seen), len(frontier)))
    ck.total.samples.append({"history": ["list:gopher", "create", "tick:9", "list:http", "tick:1", "list:gemini"], "meaning": "ops applied to a fresh world under the virtual clock; each list is compared with the cache model"})
    ck.rule = ("histories over the operation menu {list via gopher/gopher+$/http/gemini, HEAD, create, delete, rename, edit .names, clock +1/+L-1/+L/+L+1/+1 day} for lifetimes 10 and 0, each history ending with a listing attempt while os.listdir of the directory fails (EACCES), breadth-first with "
               "de-duplication on (tree digest, unpickled cache entries, cache age capped at L, model snapshot); every list compared with the explicit cache model (fresh answers from the twin); distinct = (lifetime, op kind, verdict)")
    ck.bounds = {"depth": depth, "lifetimes": [10, 0]}
    ck.assumptions = ["virtual clock: pygopherd.handlers.dir.time is replaced; the cache file's mtime is set to the virtual clock whenever the server wrote it",
                      "state merging is sound because a state's future depends only on the directory contents, the cached entries, the cache age relative to the lifetime (all ages >= L behave alike) and the lifetime"]

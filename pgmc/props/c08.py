"""C08 — UMN link files, .cap overrides and abstracts have their documented effect.

E1: link files of 1-3 blocks drawn from 24 block shapes (overrides of './name'
with every field, hide codes X and -, Host/Port '+', abstracts with
continuation lines, new entries with absolute / relative / URL: paths, positive,
zero, equal and negative Numb, comments), every permutation of the lines of a
block, the same blocks as .cap/<name> files, and the three extension-stripping
modes.  Oracle: a reference reading of the manual applied ON TOP of the
directory's own listing without metadata (so file-type guessing and default
names are not re-implemented), compared with the Gopher menu; ties on
(number, title) are unconstrained.
"""
from __future__ import annotations

import itertools
import os
import posixpath

from .. import core, parsers, rig, worlds

ID = "C08"

BASE = {"prog.cc": b"int main(){}\n", "key.asc": b"-----\n", "caf\udce9.txt": b"latin-1 file name\n", "notes.txt.old.txt": b"n\n", "a.txt-b.txt": b"ab\n", "index.html.bak.html": b"<html><body>no title</body></html>\n", "a.txt": b"A\n", "b.html": worlds.HTML, "c.txt.gz": worlds.gz(b"c\n"), "d": {"inner.txt": b"i\n"}, "sub": {"x.txt": b"x\n"}, "a.txt.abstract": b"sidecar abstract of a\n", "e.txt": b"E\n",
        # titles whose order differs from the order of the file names once the extension is gone; extensions that are not lower case
        "list.txt": b"l\n", "text.txt": b"t\n",  # base names ending in characters of their own extension
        "notes-old.txt": b"no\n", "notes.txt": b"n\n", "CHANGES.TXT": b"ch\n", "Readme.Txt": b"r\n", "page.HTML": b"<html><body>p</body></html>\n"}

# block = list of lines (bytes); kind o = override of ./target, n = new entry
O = lambda target, *lines: ("o", target, [b"Path=./" + target] + list(lines))  # noqa: E731
N = lambda *lines: ("n", None, list(lines))  # noqa: E731
BLOCKS = [
    O(b"a.txt", b"Name=zulu last"), O(b"a.txt", b"Numb=2"), O(b"a.txt", b"Type=1"), O(b"a.txt", b"Name=Alpha Two", b"Numb=1"), O(b"a.txt", b"Type=X"), O(b"a.txt", b"Type=-"),
    O(b"a.txt", b"Host=other.example", b"Port=7070"), O(b"a.txt", b"Abstract=one line override"), O(b"a.txt", b"Abstract=two\\", b"lines"), O(b"d", b"Name=Dir Renamed", b"Numb=-1"),
    O(b"a.txt", b"Host=+", b"Port=+"), O(b"e.txt", b"Numb=-2"), O(b"e.txt", b"Numb=2", b"Name=echo"), O(b"b.html", b"Type=X"),
    N(b"Name=Remote", b"Type=1", b"Path=/r", b"Host=remote.example", b"Port=7070"),
    N(b"Name=Remote First", b"Type=1", b"Path=/r1", b"Host=remote.example", b"Port=7070", b"Numb=1"),
    N(b"Name=Local Abs", b"Type=0", b"Path=/t/sub/x.txt", b"Host=+", b"Port=+"),
    N(b"Name=Rel", b"Type=0", b"Path=sub/x.txt", b"Host=+", b"Port=+"),
    N(b"Name=Web", b"Type=h", b"Path=/URL:http://example.com/", b"Host=+", b"Port=+"),
    N(b"Name=Web2", b"Type=h", b"Path=URL:http://example.com/", b"Host=+", b"Port=+"),
    N(b"Name=Neg", b"Type=1", b"Path=/n", b"Host=h.example", b"Port=70", b"Numb=-1"),
    N(b"Name=WithAbs", b"Type=0", b"Path=/w", b"Host=h.example", b"Port=70", b"Abstract=abstract of a new entry"),
    N(b"# a comment before the block", b"Name=Commented", b"Type=0", b"Path=/c", b"Host=+", b"Port=+"),
    N(b"Name=Zed", b"Type=0", b"Path=/z", b"Host=+", b"Port=+", b"Numb=10"),
    N(b"Name=Alpha", b"Type=0", b"Path=/dup", b"Host=+", b"Port=+", b"Numb=2"),
    O(b"a.txt", b"Numb=0"), O(b"e.txt", b"Name=echo renamed"), O(b"e.txt", b"Numb=0"), O(b"e.txt", b"Numb=3"),
    O(b"e.txt", b"Name=caf\xe9 in latin-1", b"Abstract=r\xe9sum\xe9"), O(b"caf\xe9.txt", b"Name=renamed latin-1 file", b"Numb=1"),
    N(b"Name=latin-1 \xe9ntry", b"Type=0", b"Path=/l\xe9", b"Host=+", b"Port=+"),
    # "any subset of the lines": blocks that leave out the title, the type, or host and port
    N(b"Type=1", b"Path=/untitled", b"Host=h.example", b"Port=70"),
    N(b"Name=No Type", b"Path=/notype", b"Host=+", b"Port=+"),
    N(b"Name=Bare Path", b"Type=1", b"Path=/bare"),
    # new entries whose selector is the selector of a real file of the directory (a mirror on another host; the same
    # file under a second title, written relative): hiding or overriding the file itself must leave them alone
    N(b"Name=Mirror Of A", b"Type=0", b"Path=/t/a.txt", b"Host=mirror.example", b"Port=70"), N(b"Name=Second Title For A", b"Type=0", b"Path=a.txt", b"Host=+", b"Port=+", b"Numb=9"),
    N(b"Name=Mirror Of E", b"Type=0", b"Path=/t/e.txt", b"Host=mirror.example", b"Port=7070", b"Numb=8"),
    # a line longer than any line buffer, followed by more lines of the same block
    O(b"e.txt", b"Abstract=" + (b"long abstract " * 120).strip(), b"Name=After Long Line", b"Numb=5"),
    N(b"Name=" + (b"Long Title " * 100).strip(), b"Type=0", b"Path=/long", b"Host=+", b"Port=+", b"Numb=6"),
    # relative paths written with a trailing slash still name the directory
    O(b"d/", b"Name=Dir With Slash", b"Numb=7"), O(b"sub/", b"Type=X"),
    # the two blocks whose every subset of lines (with the Path) is tried, forwards and backwards
    N(b"Name=Rich New", b"Type=1", b"Path=/rich", b"Host=rich.example", b"Port=7071", b"Numb=4", b"Abstract=rich abstract"),
    O(b"e.txt", b"Name=Rich Override", b"Type=1", b"Host=rich.example", b"Port=7071", b"Numb=4", b"Abstract=rich override"),
]


_DIR = b"t"  # the directory under test; b"" = the document root itself


def _pre():
    return b"/" + _DIR + b"/" if _DIR else b"/"


def _dirsel():
    return "/" + _DIR.decode() if _DIR else "/"


def render(blocks):
    return b"\n".join(b"\n".join(b[2]) + b"\n" for b in blocks)


def parse_block(lines):
    """The documented reading of one block: -> dict of the fields it sets."""
    f = {}
    it = iter(lines)
    for ln in it:
        if ln.startswith(b"#"):
            continue
        k, _, v = ln.partition(b"=")
        if k == b"Abstract":
            text = []
            while v.endswith(b"\\"):
                text.append(v[:-1])
                v = next(it, b"")
            text.append(v)
            f["abstract"] = b"\n".join(text)
        elif k == b"Numb":
            f["num"] = int(v)
        elif k == b"Port":
            f["port"] = None if v == b"+" else int(v)
            f["port_set"] = v != b"+"
        elif k == b"Host":
            f["host"] = None if v == b"+" else v
            f["host_set"] = v != b"+"
        else:
            f[k.decode().lower()] = v
    return f


def baseline_entries(w):
    r = w.serve(*rig.request("gopher", _dirsel()))
    entries = {}
    cur = None
    for t, name, sel, host, port, plus in parsers.gopher_menu_lines(r.out):
        if t == b"i":
            if cur is not None:
                entries[cur]["abstract"] = (entries[cur]["abstract"] + b"\n" + name) if entries[cur]["abstract"] else name
            continue
        entries[sel] = {"type": t, "name": name, "sel": sel, "host": None, "port": None, "num": 0, "abstract": b"", "hidden": False}
        cur = sel
    return entries


def expected(base, capfiles, linkfiles):
    ents = {k: dict(v) for k, v in base.items()}
    order_new = []

    def apply(e, f):
        for k in ("type", "name", "num", "abstract"):
            if k in f:
                e[k] = f[k]
        if f.get("host_set"):
            e["host"] = f["host"]
        if f.get("port_set"):
            e["port"] = f["port"]

    for fname, blocks in capfiles.items():
        sel = _pre() + fname
        if sel in ents and blocks:
            f = parse_block(blocks[0][2][1:] if blocks[0][0] == "o" else blocks[0][2])
            if f.get("type") in (b"X", b"-"):
                ents[sel]["hidden"] = True
            else:
                apply(ents[sel], f)
    for fname in sorted(linkfiles):
        for kind, target, lines in linkfiles[fname]:
            f = parse_block(lines)
            if kind == "o":
                sel = _pre() + target.rstrip(b"/")  # "a trailing slash is removed from the path"
                if sel not in ents:
                    continue
                if f.get("type") in (b"X", b"-"):
                    ents[sel]["hidden"] = True
                else:
                    apply(ents[sel], f)
            else:
                path = f["path"]
                local = not f.get("host_set") and not f.get("port_set")
                if local and not path.startswith(b"/") and not path.startswith(b"URL:"):
                    path = posixpath.normpath(_pre() + path)
                e = {"type": f.get("type", b"0"), "name": f.get("name"), "sel": path, "host": f.get("host"), "port": f.get("port"), "num": f.get("num", 0), "abstract": f.get("abstract", b""), "hidden": False}
                order_new.append(e)
    allents = [e for e in ents.values() if not e["hidden"]] + order_new

    def group(e):
        n = e["num"]
        return (0, n) if n > 0 else ((1, 0) if n == 0 else (2, n))

    # an entry without a title has no documented place in the order: kept apart (see compare)
    titled = [e for e in allents if e["name"] is not None]
    titled.sort(key=lambda e: (group(e), e["name"]))
    return titled + [e for e in allents if e["name"] is None]


def canon(e):
    me = rig.SERVER_NAME.encode()
    host = e["host"] if e["host"] is not None else me
    port = e["port"] if e["port"] is not None else rig.SERVER_PORT
    return (e["type"], e["name"] if e["name"] is not None else b"", e["sel"], host, port, tuple(e["abstract"].split(b"\n")) if e["abstract"] else ())


def listing(w):
    r = w.serve(*rig.request("gopher", _dirsel()))
    if r.internal_error:
        return None, r.describe_error()
    if parsers.is_gopher_error(r.out):
        return None, "listing failed: %r" % r.out[:100]
    out = []
    for t, name, sel, host, port, plus in parsers.gopher_menu_lines(r.out):
        if t == b"i":
            if out:
                out[-1][5].append(name)
            continue
        out.append([t, name, sel, host, port, []])
    return [(a, b, c, d, e, tuple(f)) for a, b, c, d, e, f in out], None


def compare(got, exp):
    """Equal modulo the order inside groups that tie on (number, title)."""
    want = [canon(e) for e in exp]
    got = list(got)
    for e in [e for e in exp if e["name"] is None]:
        c = canon(e)
        if c not in got:
            return "the block without a Name= line adds no entry %r; listing: %r" % (c, got)
        got.remove(c)
        want.remove(c)
    exp = [e for e in exp if e["name"] is not None]
    if len(got) != len(want):
        return "listing has %d entries, the manual's reading gives %d: %r vs %r" % (len(got), len(want), [g[1] for g in got], [w[1] for w in want])
    i = 0
    while i < len(exp):
        j = i
        while j + 1 < len(exp) and exp[j + 1]["num"] == exp[i]["num"] and exp[j + 1]["name"] == exp[i]["name"]:
            j += 1
        if sorted(got[i:j + 1]) != sorted(want[i:j + 1]):
            return "entry #%d: listing shows %r, the manual's reading gives %r (whole listing: %r)" % (i, got[i:j + 1], want[i:j + 1], [(g[0], g[1]) for g in got])
        i = j + 1
    return None


def _known_suffixes(fn: bytes):
    """Extensions (with an optional encoding suffix) that the configured tables give the type of this file name."""
    from .c04 import _mime_tables, ref_mime

    ext, enc, suffix = _mime_tables()
    t, encoding = ref_mime(fn)
    out = set()
    for e, ty in ext.items():
        if ty == t:
            out.add(e)
            for en in enc:
                out.add(e + en)
    return out


def check_case(capfiles, linkfiles, extstrip="nonencoded", where="t"):
    global _DIR
    _DIR = where.encode()
    tree = {k: (dict(v) if isinstance(v, dict) else v) for k, v in BASE.items()}
    w = rig.World({where: tree} if where else tree, handlers="default", cachetime=0, tag="c08",
                  handlers_DOT_UMN_DOT_UMNDirHandler__extstrip=extstrip)
    try:
        base = baseline_entries(w)
        for fname, blocks in capfiles.items():
            lines = blocks[0][2][1:] if blocks[0][0] == "o" else blocks[0][2]
            rig.write_file(os.path.join(os.fsencode(w.root), _DIR, b".cap", fname), b"\n".join(lines) + b"\n")
        for fname, blocks in linkfiles.items():
            rig.write_file(os.path.join(w.root, where, fname), render(blocks))
        got, err = listing(w)
        if got is None:
            return ("listing", err)
        why = compare(got, expected(base, capfiles, linkfiles))
        if why:
            return ("differs", why)
        if True:
            # names without metadata: a known extension is removed from the file name, nothing else
            for sel, e in base.items():
                fn = sel.rsplit(b"/", 1)[1]
                if extstrip == "none" and e["name"] not in (fn, b"An HTML Title"):
                    return ("extstrip", "extstrip=none but %r is shown as %r" % (fn, e["name"]))
                if e["name"] == b"An HTML Title":
                    continue
                if e["name"] == fn:
                    from .c04 import ref_mime

                    t, encoding = ref_mime(fn)
                    # (how an extension that is not written in lower case is treated is not documented: either way)
                    must_strip = e["type"] != b"1" and t is not None and (extstrip == "full" or (extstrip == "nonencoded" and not encoding)) and any(fn.endswith(sfx.encode()) if isinstance(sfx, str) else fn.endswith(sfx) for sfx in _known_suffixes(fn))
                    if must_strip:
                        return ("extstrip", "extstrip=%s: %r has the known type %s but its extension is not stripped" % (extstrip, fn, t))
                    continue
                removed = fn[len(e["name"]):] if fn.startswith(e["name"]) else None
                if removed is None or not ({removed, removed.lower()} & _known_suffixes(fn)):
                    return ("extstrip", "display name %r is not the file name %r minus ONE known extension of its type (removed %r)" % (e["name"], fn, removed))
    finally:
        w.destroy()
        _DIR = b"t"
    return None


def _shard(shard, seed, tier):
    part = core.Partial()
    for item in shard:
        mode, spec, extstrip = item[:3]
        if mode == "links":
            capfiles, linkfiles = {}, {".names": [BLOCKS[i] for i in spec]}
        elif mode == "two-files":
            capfiles, linkfiles = {}, {".links": [BLOCKS[spec[0]]], ".names": [BLOCKS[spec[1]]]}
        elif mode == "cap":
            b = BLOCKS[spec[0]]
            capfiles, linkfiles = {b[1]: [b]}, ({".names": [BLOCKS[spec[1]]]} if len(spec) > 1 else {})
        elif mode == "perm":
            b = BLOCKS[spec[0]]
            lines = [b[2][k] for k in spec[1]]
            capfiles, linkfiles = {}, {".names": [(b[0], b[1], lines)]}
        where = item[3] if len(item) > 3 else "t"
        bad = check_case(capfiles, linkfiles, extstrip, where)
        part.evaluations += 1
        part.transitions += 2
        part.state(mode, spec, extstrip, where)
        part.outcome(mode, extstrip, bad[0] if bad else "", spec[0] if spec else -1, where)
        part.sample({"mode": mode, "link_file": render([BLOCKS[i] for i in spec]) if mode == "links" else repr(spec), "extstrip": extstrip}, limit=2)
        if bad:
            part.violation("%s%s|%s|%s|%s" % ("root:" if not where else "", mode, ",".join(map(str, spec)) if mode != "perm" else "%d:%s" % (spec[0], "".join(map(str, spec[1]))), extstrip, bad[0]), bad[1],
                           {"mode": mode, "spec": [list(s) if isinstance(s, tuple) else s for s in spec], "extstrip": extstrip, "where": where})
    return part


def replay(case):
    spec = tuple(tuple(s) if isinstance(s, list) else s for s in case["spec"])
    p = _shard([(case["mode"], spec, case["extstrip"], case.get("where", "t"))], 0, "quick")
    return (p.violations[0][0], p.violations[0][1]) if p.violations else None


def _conflict(i, j):
    """Two blocks that set the same field of the same entry: the manual gives no precedence."""
    a, b = BLOCKS[i], BLOCKS[j]
    if a[0] == "o" and b[0] == "o" and a[1] == b[1]:
        fa, fb = parse_block(a[2]), parse_block(b[2])
        keys = (set(fa) & set(fb)) - {"path"}
        if keys:
            return True
        # one hides the entry, the other overrides fields of it: the manual gives no precedence
        ha, hb = fa.get("type") in (b"X", b"-"), fb.get("type") in (b"X", b"-")
        if ha != hb:
            return True
        # hiding and overriding the same entry in one directory is not ordered by the manual either way, but both readings hide it: fine
    return False


def _hide_conflict(i, j):
    a, b = BLOCKS[i], BLOCKS[j]
    if a[0] == "o" and b[0] == "o" and a[1] == b[1]:
        fa, fb = parse_block(a[2]), parse_block(b[2])
        return (fa.get("type") in (b"X", b"-")) != (fb.get("type") in (b"X", b"-"))
    return False


def run(ck):
    items = []
    n = len(BLOCKS)
    for i in range(n):
        for ext in ("nonencoded", "none", "full"):
            items.append(("links", (i,), ext))
    for i, j in itertools.product(range(n), repeat=2):
        if i != j and not _hide_conflict(i, j):
            # inside ONE link file the reading order decides: a later block overrides an earlier one
            items.append(("links", (i, j), "nonencoded"))
        if i != j and not _conflict(i, j):
            items.append(("two-files", (i, j), "nonencoded"))
    trip = [0, 3, 4, 9, 14, 15, 17, 20, 23, 24] if ck.tier == "quick" else list(range(n))
    for c in itertools.permutations(trip, 3):
        if not any(_conflict(a, b) for a, b in itertools.combinations(c, 2)):
            items.append(("links", c, "nonencoded"))
    for i in range(n):
        if BLOCKS[i][0] == "o" and not BLOCKS[i][1].endswith(b"/"):
            items.append(("cap", (i,), "nonencoded"))
            for j in range(n):
                if j != i and not _conflict(i, j):
                    items.append(("cap", (i, j), "nonencoded"))
    for i in range(n):
        k = len(BLOCKS[i][2])
        if any(l.startswith((b"#", b"Abstract=two")) for l in BLOCKS[i][2]):
            continue
        perms = list(itertools.permutations(range(k)))
        if k > 4 and ck.tier == "quick" and i not in (14,):
            perms = [tuple(range(k)), tuple(reversed(range(k)))] + perms[7::23]
        for pm in perms:
            items.append(("perm", (i, pm), "nonencoded"))
    nsub = 0
    for i in (n - 2, n - 1):
        lines = BLOCKS[i][2]
        pi = next(k for k, l in enumerate(lines) if l.startswith(b"Path="))
        others = [k for k in range(len(lines)) if k != pi]
        for r in range(len(others) + 1):
            for sub in itertools.combinations(others, r):
                idx = tuple(sorted(sub + (pi,)))
                for order in {idx, tuple(reversed(idx))}:
                    items.append(("perm", (i, order), "nonencoded"))
                    nsub += 1
    items.append(("links", (), "nonencoded"))
    # the same link files in the document root itself (selector "/"): single blocks and the pairs of the new-entry blocks
    for i in range(n):
        items.append(("links", (i,), "nonencoded", ""))
        if BLOCKS[i][0] == "o" and not BLOCKS[i][1].endswith(b"/"):
            items.append(("cap", (i,), "nonencoded", ""))
    news = [i for i in range(n) if BLOCKS[i][0] == "n"]
    for i, j in itertools.permutations(news, 2):
        items.append(("links", (i, j), "nonencoded", ""))
    if ck.seed:
        import random

        random.Random(ck.seed).shuffle(items)
    ck.pmap(_shard, core.chunks(items, core.NPROC * 4))
    ck.rule = ("link files = single blocks (x 3 extension-stripping modes), all ordered pairs of %d block shapes in one file and split over two link files, ordered triples over %d of them, each override block as a .cap file alone and next to every other block, "
               "line permutations of every block (all 120 orders for the five-line new-entry block) and every subset of the lines of a seven-line new-entry block and a seven-line override block that keeps the Path (forwards and backwards); pairs that set the same field of the same entry are left out (no documented precedence); distinct = (mode, extstrip, verdict, first block)" % (n, len(trip)))
    ck.bounds = {"blocks": n, "cases": len(items)}
    ck.assumptions = ["the expected listing is the manual's reading applied on top of the same directory listed without metadata, so default types and names are taken from the server, not re-implemented",
                      "entries that tie on number and title may appear in either order; ill-formed blocks (empty Type=, non-numeric Port=) are not generated"]

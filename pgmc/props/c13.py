"""C13 — generated HTML, WML and Gopher+ blocks cannot be subverted by data.

E1: every payload of <= 3 (quick) / <= 4 (thorough) characters over the
metacharacter alphabet  < > & " ' CR LF a SP / = ;  is placed, in turn, in every
position where request or content text is echoed into generated markup: request
selector (HTTP 404 page, WAP error card, URL redirect page through Gopher and
HTTP), search string, file and directory names, HTML <title>, mail Subject,
.abstract text, link-file Name/Path/Host, gophermap description/selector/host,
a text file converted to WML, Gopher+ sidecar lines.
Oracle: the element/attribute skeleton of the page (and the HTTP header block,
and the sequence of Gopher+ block headers) equals the one obtained with an
inert payload of the same length.
"""
from __future__ import annotations

import itertools
import os
import re
from urllib.parse import quote

from .. import core, parsers, rig, worlds

ID = "C13"

ALPHABET = [b"<", b">", b"&", b'"', b"'", b"\r", b"\n", b"a", b" ", b"/", b"=", b";"]


def payloads(maxlen):
    out = []
    for n in range(1, maxlen + 1):
        for combo in itertools.product(ALPHABET, repeat=n):
            out.append(b"".join(combo))
    return out


def inert(p: bytes) -> bytes:
    """Same length and same LINE structure, every other character inert: the
    number of lines of an abstract, a sidecar or a text file is data shape, not
    injected structure.  (Header / status-line injection through a selector is
    judged separately against the all-'a' payload, see check_payload.)"""
    return bytes(c if c in (13, 10, 32) else 97 for c in p)  # blanks too: a blank line is a paragraph break


def inert_flat(p: bytes) -> bytes:
    return b"a" * len(p)


def name_ok(p: bytes):
    return b"/" not in p and p not in (b".", b"..")


def qp(b: bytes) -> bytes:
    return b"".join(b"=%02X" % c for c in b)


def build_spec(p: bytes, ncr=None):
    """`ncr` is the payload used in positions whose line structure is NOT data shape: text that
    the server collapses to one line (HTML titles, mail subjects), however it is spelled."""
    ncr = p if ncr is None else ncr
    flatp = p.replace(b"\n", b"").replace(b"\r", b"")
    encp = quote(p, safe="").encode()
    """One world with the payload in every content-derived echo position."""
    spec = {
        "title": {"page.html": b"<html><head><title>" + ncr + b"</title></head><body>x</body></html>\n",
                  # the same payload spelled as numeric character references
                  "ncr.html": b"<html><head><title>T " + b"".join(b"&#%d;" % c for c in ncr) + b" end</title></head><body>x</body></html>\n",
                  # a second title element that is never closed (browsers ignore it), raw and as character references; hexadecimal references
                  "two.html": b"<html><head><title>first</title><title>" + b"".join(b"&#%d;" % c for c in ncr) + b"\n</head><body>x</body></html>\n",
                  "tworaw.html": b"<html><head><TITLE>first</TITLE><title lang=en>" + ncr.replace(b"<", b"&lt;") + b"\n<body>x</body></html>\n",
                  # a title whose payload comes after more blank runs than any small count (a collapse applied to the first few only)
                  "long.html": b"<html><head><title>w1 w2\tw3  w4 w5\n w6 w7 w8 w9 w10 " + ncr + b"</title></head><body>x</body></html>\n",
                  "hex.html": b"<html><head><title>H" + b"".join(b"&#x%x;" % c for c in ncr) + b"</title></head><body>x</body></html>\n"},
        "mail": {"box.mbox": b"From a@b Thu Jan  1 00:00:01 2004\nFrom: a@b\nSubject: " + ncr.replace(b"\n", b"\n ").replace(b"\r", b" ") + b"\n\nbody\n\n"
                             b"From c@d Thu Jan  1 00:00:02 2004\nSubject: =?utf-8?q?enc_" + qp(ncr) + b"_word?=\n\nb2\n\n"
                             b"From e@f Thu Jan  1 00:00:03 2004\nSubject: plain\n\nb3\n"},
        "abs": {"f.txt": b"f\n", "f.txt.abstract": p + b"\n", ".abstract": b"dir " + p + b"\n"},
        "links": {"f.txt": b"f\n",
                  ".names": b"Path=./f.txt\nName=N " + p.replace(b"\n", b" ").replace(b"\r", b" ") + b"\n\n"
                            b"Name=Remote\nType=1\nPath=/x\nHost=h" + p.replace(b"\n", b"").replace(b"\r", b"") + b"\nPort=70\n\n"
                            b"Name=PathCase\nType=0\nPath=/p" + p.replace(b"\n", b"").replace(b"\r", b"") + b"\nHost=+\nPort=+\n\n"
                            b"Name=UrlCase\nType=h\nPath=URL:http://u/" + p.replace(b"\n", b"").replace(b"\r", b"") + b"\nHost=+\nPort=+\n"},
        "gm": {"gophermap": b"i" + p.replace(b"\n", b" ").replace(b"\r", b" ").replace(b"\t", b" ") + b"\n"
                            b"0D " + p.replace(b"\n", b" ").replace(b"\r", b" ") + b"\tf.txt\n"
                            b"0Sel\t/s" + p.replace(b"\n", b"").replace(b"\r", b"") + b"\n"
                            b"1Host\t/x\th" + p.replace(b"\n", b"").replace(b"\r", b"") + b"\t70\n"
                            b"hUrl\tURL:http://u/" + p.replace(b"\n", b"").replace(b"\r", b"") + b"\n"
                            b"7Srch\t/q" + p.replace(b"\n", b"").replace(b"\r", b"") + b"\n"
                            b"7RemoteSearch\t/s\th" + p.replace(b"\n", b"").replace(b"\r", b"") + b"\t70\n"
                            b"7UrlSearch\tURL:http://u/" + p.replace(b"\n", b"").replace(b"\r", b"") + b"\n"
                            # URL: targets that look like local paths
                            b"hUrlLocal\tURL:/l/" + p.replace(b"\n", b"").replace(b"\r", b"") + b"\n"
                            b"7UrlLocalSearch\tURL:/ls/" + p.replace(b"\n", b"").replace(b"\r", b"") + b"\n",
               "f.txt": b"f\n"},
        "clean": {"c.txt": b"no payload here\n", "sub": {}},
        # the same hostile links as in "links"/"gm", but after more entries than there are WAP access keys
        "many": dict([("a%02d.txt" % i, b"x\n") for i in range(13)] + [(".names", b"".join(
                    b"Name=Z%d\nNumb=%d\nType=%s\nPath=%s\nHost=%s\nPort=%s\n\n" % (i, 50 + i, t, pa, h, po) for i, (t, pa, h, po) in enumerate([
                        (b"1", b"/x", b"h" + flatp, b"70"), (b"0", b"/p" + flatp, b"+", b"+"), (b"h", b"URL:http://u/" + flatp, b"+", b"+"), (b"7", b"/q" + flatp, b"+", b"+"), (b"7", b"/s", b"h" + flatp, b"70")])))]),
        "gm13": {"gophermap": b"".join(b"0F%d\tf.txt\n" % i for i in range(13)) + b"0Sel\t/s" + flatp + b"\n1Host\t/x\th" + flatp + b"\t70\nhUrl\tURL:http://u/" + flatp + b"\n7UrlSearch\tURL:http://u/" + flatp + b"\n", "f.txt": b"f\n"},
        # the payload percent-encoded inside a URL (a decoder applied at the wrong moment brings it back)
        "encurl": {"gophermap": b"hUrl\tURL:http://u/" + encp + b"\nhUrl2\t/URL:http://u/" + encp + b"\n1Host\t/x" + encp + b"\th.example\t70\n", ".names": b"Name=UrlCase\nType=h\nPath=URL:http://u/" + encp + b"\nHost=+\nPort=+\n"},
        "waptext": {"t.txt": b"line " + p + b" end\n" + p + b"\n"},
        "plus": {"g.txt": b"g\n", "g.txt.abstract": b"+" + p + b"\n+INFO: x\n", "g.txt.keywords": p + b"\n+ADMIN:\n"},
    }
    if name_ok(p):
        spec["names"] = {b"n" + p + b".txt": b"named\n", b"d" + p: {b"inner.txt": b"i\n"}}
        # a root-level directory whose name begins like a URL: selector but is no URL
        # (single-line names only: URL: is a reserved namespace and a line break in it is ill-formed content)
        if b"\n" not in p and b"\r" not in p:
            spec[b"URL:x:" + p] = {b"inner.txt": b"i\n"}
    return spec


def requests(p: bytes):
    """-> list of (position label, family, request bytes, tls)"""
    q = quote(p, safe="").encode()
    out = []
    host = rig.SERVER_NAME.encode()
    # request-derived
    out.append(("selector-404", "http", b"GET /nf" + q + b" HTTP/1.0\r\n\r\n"))
    out.append(("selector-404", "wap", b"GET /wap/nf" + q + b" HTTP/1.0\r\n\r\n"))
    out.append(("selector-404-head", "http", b"HEAD /nf" + q + b" HTTP/1.0\r\n\r\n"))
    out.append(("url-redirect", "http", b"GET /URL:http://h/" + q + b" HTTP/1.0\r\n\r\n"))
    out.append(("url-redirect", "wap", b"GET /wap/URL:http://h/" + q + b" HTTP/1.0\r\n\r\n"))
    if not any(c in p for c in (b"\r", b"\n", b"\t")) and p.strip() == p:
        out.append(("url-redirect", "gopher", b"URL:http://h/" + p + b"\r\n"))
    out.append(("search", "http", b"GET /nf?searchrequest=" + q + b" HTTP/1.0\r\n\r\n"))
    out.append(("search", "http", b"GET /clean?searchrequest=" + q + b" HTTP/1.0\r\n\r\n"))
    out.append(("search", "wap", b"GET /wap/clean?searchrequest=" + q + b" HTTP/1.0\r\n\r\n"))
    out.append(("search", "http", b"GET /clean/c.txt?searchrequest=" + q + b" HTTP/1.0\r\n\r\n"))
    # content-derived
    # the payload percent-encoded INSIDE the URL: once more encoded for the URL-based protocols
    qq = quote(q, safe="").encode()
    out.append(("url-redirect", "http", b"GET /URL:http://h/" + qq + b" HTTP/1.0\r\n\r\n"))
    out.append(("url-redirect", "wap", b"GET /wap/URL:http://h/" + qq + b" HTTP/1.0\r\n\r\n"))
    out.append(("url-redirect", "gopher", b"URL:http://h/" + q + b"\r\n"))
    out.append(("url-redirect", "gopherp", b"URL:http://h/" + q + b"\t+\r\n"))
    for d in ("title", "mail/box.mbox", "abs", "links", "gm", "many", "gm13", "encurl"):
        out.append((d, "http", b"GET /" + d.encode() + b" HTTP/1.0\r\n\r\n"))
        out.append((d, "wap", b"GET /wap/" + d.encode() + b" HTTP/1.0\r\n\r\n"))
    out.append(("waptext", "wap", b"GET /wap/waptext/t.txt HTTP/1.0\r\n\r\n"))
    if name_ok(p):
        out.append(("names", "http", b"GET /names HTTP/1.0\r\n\r\n"))
        out.append(("names", "wap", b"GET /wap/names HTTP/1.0\r\n\r\n"))
        out.append(("names-title", "http", b"GET /names/d" + q + b" HTTP/1.0\r\n\r\n"))
        out.append(("names-title", "wap", b"GET /wap/names/d" + q + b" HTTP/1.0\r\n\r\n"))
        if b"\n" not in p and b"\r" not in p:
            out.append(("urlname", "http", b"GET /URL%3Ax%3A" + q + b" HTTP/1.0\r\n\r\n"))
            out.append(("urlname", "wap", b"GET /wap/URL%3Ax%3A" + q + b" HTTP/1.0\r\n\r\n"))
    # Gopher+ attribute listings
    out.append(("plus", "gopherp", b"/plus\t$\r\n"))
    out.append(("plus", "gopherp", b"/plus/g.txt\t!\r\n"))
    out.append(("abs", "gopherp", b"/abs\t$\r\n"))
    out.append(("abs", "gopherp", b"/abs/f.txt\t!\r\n"))
    out.append(("title", "gopherp", b"/title\t$\r\n"))
    out.append(("title", "gopherp", b"/title/page.html\t!\r\n"))
    out.append(("title", "gopherp", b"/title/ncr.html\t!\r\n"))
    out.append(("title", "gopherp", b"/title/page.html\t!\r\n"))
    out.append(("title", "gopherp", b"/title/ncr.html\t!\r\n"))
    for f in (b"two.html", b"tworaw.html", b"hex.html", b"long.html"):
        out.append(("title", "gopherp", b"/title/" + f + b"\t!\r\n"))
    out.append(("title", "gopher", b"/title\r\n"))
    out.append(("mail/box.mbox", "gopher", b"/mail/box.mbox\r\n"))
    out.append(("mail/box.mbox", "gopherp", b"/mail/box.mbox\t$\r\n"))
    out.append(("links", "gopherp", b"/links\t$\r\n"))
    out.append(("gm", "gopherp", b"/gm\t$\r\n"))
    return out


def shape(family, out: bytes):
    """The structure a client sees: (header block, element skeleton) or block-header sequence."""
    if family == "gopher":
        if out.lstrip().startswith(b"<"):
            # the redirect page served raw
            return ("gopher", tuple(parsers.skeleton(out.decode("utf-8", "surrogateescape"))))
        try:
            # a menu: its line structure (type characters) is what a client acts on
            return ("gopher-menu", tuple(l[0] for l in parsers.gopher_menu_lines(out)))
        except ValueError:
            return ("text", parsers.is_gopher_error(out))
    if family == "gopherp":
        m = parsers.GP_STATUS.match(out)
        if not m:
            return ("gopherp", "nostatus")
        heads = [re.sub(rb"^(\+[A-Za-z0-9]+):.*$", rb"\1", ln, flags=re.S) for ln in out[m.end():].split(b"\r\n") if ln.startswith(b"+")]
        stray = [ln for ln in out[m.end():].split(b"\r\n") if ln and not ln.startswith((b"+", b" "))]
        return ("gopherp", m.group(0), tuple(heads), len(stray) > 0)
    try:
        status, headers, body = parsers.split_http(out)
    except ValueError as e:
        return ("http", "unparsable", str(e)[:40])
    hdrs = tuple((n, v if n.lower() != b"last-modified" else b"X") for n, v in headers)
    return ("http", status, hdrs, tuple(parsers.skeleton(body.decode("utf-8", "surrogateescape"))))


def _serve_all(p, ncr=None):
    w = rig.World(build_spec(p, ncr), handlers="default", cachetime=0, tag="c13")
    res = {}
    try:
        for i, (label, fam, data) in enumerate(requests(p)):
            r = w.serve(data, False)
            res[i] = (label, fam, data, r.out, r.describe_error())
    finally:
        w.destroy()
    return res


def check_payload(p):
    bad = []
    got = _serve_all(p)
    # (a title spelled with character references is ONE line of the file whatever it decodes to:
    #  its inert counterpart is flat)
    ref = _serve_all(inert(p), ncr=inert_flat(p))
    flat = _serve_all(inert_flat(p)) if inert(p) != inert_flat(p) else ref
    # request-derived positions: CR/LF in the request must not buy anything either
    for i, (label, fam, data, out, err) in flat.items():
        if label in ("selector-404", "selector-404-head", "url-redirect", "search") and i in ref:
            ref[i] = flat[i]
    # the requests of payload and inert line up by construction except where name_ok / gopher applicability differ
    ref_by_label = {}
    for i, (label, fam, data, out, err) in ref.items():
        ref_by_label.setdefault((label, fam), []).append(shape(fam, out))
    used = {}
    n = 0
    for i, (label, fam, data, out, err) in got.items():
        n += 1
        if err:
            bad.append((label, fam, "error", "%s; request %r" % (err, data[:80])))
            continue
        k = used.get((label, fam), 0)
        used[(label, fam)] = k + 1
        shapes = ref_by_label.get((label, fam), [])
        if k >= len(shapes):
            continue
        s = shape(fam, out)
        if s != shapes[k]:
            if label == "url-redirect":
                # refusing the selector (not-found) is the other legitimate outcome
                nf = [x for (l2, f2), v in ref_by_label.items() if f2 == fam and l2 in ("selector-404",) for x in v]
                if fam == "gopher":
                    if s == ("gopher-menu", (b"3",)):
                        continue
                elif nf and s[3] == nf[0][3] and s[1] == nf[0][1]:
                    continue
            bad.append((label, fam, "structure", "payload %r in position %s (%s): structure %r differs from the structure with inert data %r; response %r" % (
                p, label, fam, _brief(s), _brief(shapes[k]), out[:300])))
    return bad, n


def _brief(s):
    return repr(s)[:500]


def _shard(shard, seed, tier):
    part = core.Partial()
    for p in shard:
        bad, n = check_payload(p)
        part.evaluations += n
        part.transitions += n
        part.state(p)
        part.outcome(len(p), tuple(sorted(set((b[0], b[1]) for b in bad))), p[:1])
        part.sample({"payload": p, "positions": sorted(set(l for l, _, _ in requests(p)))}, limit=2)
        seen = set()
        for label, fam, cls, det in bad:
            k = "%s|%s|%s|%s" % (ascii(p), label, fam, cls)
            if k in seen:
                continue
            seen.add(k)
            part.violation(k, det, {"payload": p})
    return part


def replay(case):
    bad, _ = check_payload(case["payload"])
    return (bad[0][2], bad[0][3]) if bad else None


def run(ck):
    ps = payloads(3 if ck.tier == "quick" else 4)
    if ck.tier == "quick":
        ps = [p for p in ps if len(p) <= 2 or sum(1 for c in p if bytes([c]) in (b"a", b" ", b"/", b"=", b";")) <= 1]
    if ck.seed:
        import random

        random.Random(ck.seed).shuffle(ps)
    ck.pmap(_shard, core.chunks(ps, core.NPROC * 4))
    ck.rule = ("payloads = all strings of <= %d characters over %r (quick: 3-character payloads with at most one inert character), each placed in %d echo positions and requested through HTTP, WAP and Gopher+; "
               "the element/attribute skeleton, the HTTP header block and the Gopher+ block-header sequence are compared with those for an inert payload of the same length; distinct = (length, violated positions, first character)"
               % (3 if ck.tier == "quick" else 4, [a.decode("latin-1") for a in ALPHABET], len(set(l for l, _, _ in requests(b"a")))))
    ck.bounds = {"payload_length": 3 if ck.tier == "quick" else 4, "payloads": len(ps)}
    ck.assumptions = ["structure = sequence of start/end tags with attribute names (html.parser), declarations and comments; attribute values and text are data",
                      "a URL: selector may legitimately be refused (not-found) instead of producing the redirect page"]

"""C17 — simpleTAL executes templates according to TAL/TALES semantics.

E1: every consistent subset of the six TAL commands on one element with every
expression of per-command menus; parent x child pairs; nested repeats; METAL
macros with and without slots.  Oracle 1: an independent tree-walking TAL/TALES
evaluator (pgmc/talref.py) compared on the parsed event stream.  Oracle 2:
structural well-formedness of every compiled program (scopes balanced, every
jump target is the end of the owning element, macro/slot ranges are scopes).
Oracle 3 (E2): the interpreter run with Context.evaluate answered by the
explorer from a menu of values at every evaluation site, deviation-bounded;
on termination program counter, scope/program stacks and the context's local
and repeat stacks must be back where they started and the output well nested.
"""
from __future__ import annotations

import io
import itertools

from .. import core, envx, rig, talref

ID = "C17"

from simpletal import simpleTAL, simpleTALES  # noqa: E402


class Obj:
    a = "attr-a"

    def meth(self):
        return "meth-result"


def fn():
    return "called"


def make_globals():
    return {
        "s1": "one", "s2": "two<&>\"'", "markup": "<b class=\"x\">bold</b> &amp; more", "t": 1, "f": 0, "num": 42, "zero": 0, "empty": "",
        "seq0": [], "seq1": ["only"], "seq2": ["a", "b"], "seq3": ["x", "y<", "z"], "m": {"k": "vk", "n": {"d": "deep"}, "l": ["l0", "l1"]},
        "fn": fn, "obj": Obj(), "tup": ("t0", "t1"),
        "recs": [{"label": "A", "flag": 1}, {"flag": 0}, {"label": "C<", "flag": 1}, {"flag": 0, "label": ""}],
        # mappings whose keys are digit strings; sequences nested in mappings nested in sequences
        "years": {"2024": {"era": "now"}, "0": "zero-key", "1999x": "mixed"}, "nested": [["n00", "n01"], {"k": ["deep0"], "7": "seven"}],
    }


DEFINE = [None, "v1 string:one", "global g1 s1", "v1 missing | nothing; v2 s1", "local v1 m/k; global g2 string:a;;b"]
CONDITION = [None, "t", "f", "missing", "not:f", "exists:missing", "seq0", "missing | missing2", "nocall:missing | missing2", "exists:s1", "not:missing", "nocall:fn", "empty", "zero", "default", "nothing", "seq1"]
REPEAT = [None, "it seq2", "it recs", "it seq0", "it missing", "it seq1", "it m/l", "it tup", "it nothing", "it default", "it s1"]
CONTENT = [
    None, ("c", "s1"), ("c", "structure markup"), ("c", "text s2"), ("c", "nothing"), ("c", "default"), ("c", "missing | s1"), ("c", "string:a ${s1} $s1 $$ ${missing}x"),
    ("c", "missing | missing2"), ("c", "nocall:missing | missing2"), ("c", "num"), ("c", "fn"), ("c", "nocall:s1"), ("c", "m/n/d"), ("c", "seq2/1"), ("c", "attrs/title"), ("c", "obj/a"), ("c", "obj/meth"), ("c", "s2"), ("c", "missing"),
    ("c", "structure s2"), ("c", "path:m/k"), ("c", "exists:m/zz"), ("c", "not:s1"), ("c", "string:"), ("c", "m/l/1"), ("c", "zero"), ("c", "empty"),
    ("r", "s1"), ("r", "structure markup"), ("r", "nothing"), ("r", "default"), ("r", "s2"), ("r", "missing | nothing"), ("r", "text s1"),
]
REPEAT_CONTENT = [("c", "it/label | default"), ("r", "it/label | default"), ("c", "it/label | nothing"), ("c", "structure it/label | default"), ("c", "it"), ("c", "repeat/it/number"), ("c", "string:${repeat/it/index}-${repeat/it/letter}-${repeat/it/Roman}-${repeat/it/even}${repeat/it/odd}${repeat/it/start}${repeat/it/end}-${repeat/it/length}"), ("r", "it")]
ATTRIBUTES = [None, "title it/label | default; class it/flag | nothing", "title s1", "title nothing", "class default; id string:x;;y", "title missing", "title s2; lang string:en", "title repeat/it/number | string:none", "href markup"]
OMIT = [None, "", "t", "f", "missing", "nothing", "default", "it/flag | f", "missing | missing2"]


def element(define=None, condition=None, repeat=None, content=None, attributes=None, omit=None, tag="div", body="x<i>inner</i>y", static='title="orig" class="k"'):
    a = []
    # attribute ORDER in the source must not matter: commands are ordered by TAL priority
    if omit is not None:
        a.append('tal:omit-tag="%s"' % omit)
    if attributes is not None:
        a.append('tal:attributes="%s"' % attributes)
    if content is not None:
        a.append('tal:%s="%s"' % ("content" if content[0] == "c" else "replace", content[1]))
    if repeat is not None:
        a.append('tal:repeat="%s"' % repeat)
    if condition is not None:
        a.append('tal:condition="%s"' % condition)
    if define is not None:
        a.append('tal:define="%s"' % define)
    return "<%s %s %s>%s</%s>" % (tag, static, " ".join(a), body, tag)


def single_templates(tier):
    out = []
    for d, c, r in itertools.product(DEFINE, CONDITION if tier == "thorough" else CONDITION[:11], REPEAT if tier == "thorough" else REPEAT[:7]):
        contents = CONTENT + (REPEAT_CONTENT if r else [])
        for ct in contents:
            for at, om in itertools.product(ATTRIBUTES, OMIT):
                if tier == "quick" and not (r == "it recs" and d is None and c is None):
                    # full cross only on the axes that interact; elsewhere vary one axis at a time
                    simple = sum(x is not None for x in (d, c, r, at, om))
                    if simple > 3 and not (ct is None or ct[1] in ("s1", "nothing", "default", "it", "structure markup")):
                        continue
                    if simple > 2 and ct is not None and CONTENT.index(ct) > 8 if ct in CONTENT else False:
                        continue
                out.append("<html><body>pre " + element(d, c, r, ct, at, om) + " post &amp; &lt;tail&gt;</body></html>")
    return out


def nested_templates(tier):
    out = []
    parents = [dict(define="v1 string:outer"), dict(condition="t"), dict(condition="f"), dict(repeat="it seq2"), dict(repeat="o seq3"), dict(omit=""), dict(attributes="title s1"),
               dict(define="v1 s1", repeat="it seq2"), dict(repeat="it seq3", attributes="id attrs/title; lang attrs/class | string:none"), dict(repeat="it seq2", omit="attrs/nosuch | f"),
               dict(content=("c", "default")), dict(content=("c", "s1")), dict(repeat="it seq2", omit="")]
    children = [dict(content=("c", "v1 | string:unset")), dict(content=("c", "it | string:noit")), dict(repeat="j seq2", content=("c", "string:${it | nothing}/${j}/${repeat/j/number}")),
                dict(define="v1 string:inner", content=("c", "v1")), dict(condition="exists:it", content=("c", "it")), dict(attributes="title it | default", content=("c", "repeat/it/index | string:-")),
                dict(repeat="it seq1", content=("c", "it")), dict(attributes="title attrs/class", content=("c", "attrs/class")), dict(define="global gg string:G", content=("c", "gg")), dict(omit="", content=("c", "s1")), dict(replace_=1, content=("r", "it | s1"))]
    for p in parents:
        for c in children:
            c2 = {k: v for k, v in c.items() if k != "replace_"}
            inner = element(tag="span", body="child-body", static='class="c" title="child-title"', **c2)
            after = element(tag="b", body="after", static="", content=("c", "v1 | it | string:restored"))
            out.append("<html><body>" + element(body="[" + inner + "]", **p) + after + "</body></html>")
            if "repeat" in p and "repeat" in c:
                # what repeat/<name> means in the outer element once an inner loop (same or another variable name) is over
                rp = element(tag="u", body="rp", static="", content=("c", "string:${repeat/it/number | string:-}.${repeat/it/end | string:-}.${repeat/o/length | string:-}.${repeat/j/index | string:-}"))
                out.append("<html><body>" + element(body="[" + inner + "]" + rp, **p) + after + "</body></html>")
    return out


PATH_EXPRS = [
    "years/2024/era", "years/0", "years/1999x", "years/1999 | string:none", "exists:years/2024", "not:exists:years/7", "exists:years/007", "seq2/0", "seq2/-1", "seq2/2 | string:out-of-range",
    "seq2/x | string:not-a-number", "tup/1", "tup/-2", "m/l/0", "m/l/-1", "m/n/d", "nested/0/1", "nested/1/k/0", "nested/1/7", "nested/1/7/0 | string:into-a-string", "nested/2 | nested/0/0",
    "string:${years/0}-${seq2/0}-$s1-${nested/1/7}", "years/2024 | missing", "missing | years/0", "nocall:years/0", "exists:seq2/5", "path:years/0", "recs/0/label", "recs/1/label | string:nolabel",
    "recs/3/label", "recs/-1/flag", "seq3/1", "not:years/0", "not:seq0/0", "string:$years/0 end", "years/2024/era | default", "seq0/0 | nothing", "m/l/2 | m/l/1", "exists:nested/1/k/0", "nocall:nested/1/k",
]


def path_templates():
    """Path traversal through every kind of container, in every position an expression can stand."""
    out = []
    for e in PATH_EXPRS:
        out.append('<html><body><p tal:content="%s">c</p></body></html>' % e)
        out.append('<html><body><p tal:replace="%s">r</p>after</body></html>' % e)
        out.append('<html><body><p tal:condition="%s">shown</p><p tal:condition="not:%s">not shown</p></body></html>' % (e, e) if not e.startswith(("string:", "not:")) and "|" not in e else '<html><body><p tal:condition="%s">shown</p></body></html>' % e)
        out.append('<html><body><a href="#" tal:attributes="href %s; title %s">a</a></body></html>' % (e.replace(";", ";;"), e.replace(";", ";;")))
        out.append('<html><body><div tal:define="v %s"><i tal:content="v">i</i><b tal:content="string:[$v]">b</b></div></body></html>' % e.replace(";", ";;"))
        out.append('<html><body><span tal:omit-tag="%s">kept text</span></body></html>' % e)
        if e != "years/2024 | missing":  # (a mapping is not something tal:repeat is defined on)
            out.append('<html><body><ul><li tal:repeat="x %s" tal:content="string:${repeat/x/number}:${x}">li</li></ul></body></html>' % e)
    return out


TREE_MENU = [
    dict(), dict(define="v1 string:outer"), dict(define="global g1 it | j | s1"), dict(condition="t"), dict(condition="exists:it"), dict(repeat="it seq2"), dict(repeat="j seq3"),
    dict(repeat="it seq2", attributes="id attrs/title; lang j | it | default"), dict(omit=""), dict(omit="exists:j"), dict(attributes="title v1 | it | j | default"),
    dict(content=("c", "v1 | it | j | g1 | string:none")), dict(content=("c", "default")), dict(content=("r", "default")), dict(define="v1 it | string:noit", condition="not:exists:j"),
    dict(repeat="it recs", condition="it/flag"),
]


def tree_templates(tier):
    """'Arbitrary nesting' within a bound: every assignment of the menu to a chain of three
    elements and to a parent with two children (thorough: chains of four over the first 9)."""
    out = []
    tail = element(tag="b", body="after", static="", content=("c", "string:${v1 | string:-}/${it | string:-}/${j | string:-}/${g1 | string:-}"))

    def el(spec, body, tag, static):
        return element(tag=tag, body=body, static=static, **spec)

    menu = TREE_MENU if tier == "thorough" else TREE_MENU[:12]
    for a, b, c in itertools.product(menu, repeat=3):
        leaf = el(c, "leaf", "em", 'title="t3"')
        out.append("<html><body>" + el(a, "(" + el(b, "[" + leaf + "]", "span", 'title="t2" class="c2"') + ")", "div", 'title="t1" class="c1"') + tail + "</body></html>")
        out.append("<html><body>" + el(a, "(" + el(b, "first", "span", 'title="t2" class="c2"') + "|" + leaf + ")", "div", 'title="t1" class="c1"') + tail + "</body></html>")
    if tier == "thorough":
        for a, b, c, d in itertools.product(TREE_MENU[:9], repeat=4):
            leaf = el(d, "leaf", "u", 'title="t4"')
            out.append("<html><body>" + el(a, "(" + el(b, "[" + el(c, "{" + leaf + "}", "em", 'title="t3"') + "]", "span", 'title="t2"') + ")", "div", 'title="t1"') + tail + "</body></html>")
    return out


def metal_templates():
    out = []
    macro_plain = '<div metal:define-macro="box" class="box">[<span metal:define-slot="body">default body</span>|<i metal:define-slot="foot">default foot</i>]</div>'
    uses = [
        '<p metal:use-macro="macros/box">replaced entirely</p>',
        '<p metal:use-macro="macros/box"><b metal:fill-slot="body">filled body</b></p>',
        '<p metal:use-macro="macros/box"><b metal:fill-slot="body">B</b><u metal:fill-slot="foot">F</u></p>',
        '<p metal:use-macro="macros/box"><b metal:fill-slot="body" tal:content="s1">B</b></p>',
        '<ul><li tal:repeat="it seq2"><p metal:use-macro="macros/box"><b metal:fill-slot="body" tal:content="it">B</b></p></li></ul>',
        '<p metal:use-macro="missing">kept when the macro is missing? no: nothing</p>',
        '<p metal:use-macro="default">kept: default</p>',
        '<p metal:use-macro="macros/box"><b metal:fill-slot="nosuch">ignored</b></p>',
        # a use-macro nested in another use-macro's slot content, each filling its own slots
        '<p metal:use-macro="macros/box"><div metal:fill-slot="body">outer body <p metal:use-macro="macros/box"><b metal:fill-slot="body">inner body</b><u metal:fill-slot="foot">inner foot</u></p></div><s metal:fill-slot="foot">outer foot</s></p>',
        '<p metal:use-macro="macros/box"><div metal:fill-slot="foot"><p metal:use-macro="macros/box"><b metal:fill-slot="foot">inner foot only</b></p></div></p>',
    ]
    for u in uses:
        out.append("<html><body>" + macro_plain + "<hr>" + u + "<hr>" + '<p metal:use-macro="macros/box"><b metal:fill-slot="foot">second use</b></p>' + "</body></html>")
    return out


def expand(template: str, globs, allow_python=0):
    t = simpleTAL.compileHTMLTemplate(template)
    ctx = simpleTALES.Context(allowPythonPath=allow_python)
    for k, v in globs.items():
        ctx.addGlobal(k, v)
    ctx.addGlobal("macros", t.macros)
    out = io.StringIO()
    t.expand(ctx, out)
    return t, ctx, out.getvalue()


def norm_events(ev):
    out = []
    for e in ev:
        if e[0] == "text":
            if out and out[-1][0] == "text":
                out[-1] = ("text", out[-1][1] + e[1])
            elif e[1] != "":
                out.append(e)
        else:
            out.append(e)
    return out


def check_reference(template):
    globs = make_globals()
    try:
        t, ctx, got = expand(template, globs)
    except Exception as e:  # noqa
        return ("exception", "expanding %r raised %s: %s" % (template, type(e).__name__, e))
    g2 = make_globals()
    root = talref.parse(template)
    env = talref.Env(g2)
    it = talref.Interp(env)
    it.collect_macros(root)
    env.globals["macros"] = dict(it.macros)
    want = norm_events(it.run(root))
    have = norm_events(talref.events_of(got))
    if have != want:
        i = next((j for j in range(min(len(have), len(want))) if have[j] != want[j]), min(len(have), len(want)))
        return ("semantics", "template %r expands to %r; event #%d is %r, TAL/TALES prescribe %r" % (template, got, i, have[i:i + 2], want[i:i + 2]))
    return None


# --- oracle 2: compiled program structure -------------------------------------------


def check_structure(template):
    try:
        t = simpleTAL.compileHTMLTemplate(template)
    except Exception as e:  # noqa
        return ("compile", "%s: %s" % (type(e).__name__, e))
    cmds, start, end, symbols = t.getProgram()
    stack = []
    closes = {}
    for i, (op, args) in enumerate(cmds):
        if op == simpleTAL.TAL_START_SCOPE:
            stack.append(i)
        elif op == simpleTAL.TAL_ENDTAG_ENDSCOPE:
            if not stack:
                return ("structure", "ENDTAG_ENDSCOPE at %d closes nothing in %r" % (i, template))
            closes[stack.pop()] = i
    if stack:
        return ("structure", "scopes opened at %r are never closed in %r" % (stack, template))
    # every command with an end-tag symbol must point at the ENDSCOPE that closes the innermost scope open at that command
    open_scopes = []
    for i, (op, args) in enumerate(cmds):
        if op == simpleTAL.TAL_START_SCOPE:
            open_scopes.append(i)
        sym = None
        if op == simpleTAL.TAL_CONDITION:
            sym = args[1]
        elif op == simpleTAL.TAL_REPEAT:
            sym = args[2]
        elif op == simpleTAL.TAL_CONTENT:
            sym = args[3]
        elif op == simpleTAL.METAL_USE_MACRO:
            sym = args[2]
        elif op == simpleTAL.METAL_DEFINE_SLOT:
            sym = args[1]
        if sym is not None:
            if sym not in symbols:
                return ("structure", "command %d of %r uses an unknown end symbol" % (i, template))
            if not open_scopes or symbols[sym] != closes[open_scopes[-1]]:
                return ("structure", "command %d (%r) of %r jumps to %d, the end of its own element is %r" % (i, cmds[i], template, symbols[sym], closes.get(open_scopes[-1]) if open_scopes else None))
        if op == simpleTAL.TAL_ENDTAG_ENDSCOPE:
            open_scopes.pop()
    subs = list(t.macros.values())
    for op, args in cmds:
        if op == simpleTAL.METAL_USE_MACRO:
            subs.extend(args[1].values())
    for sub in subs:
        s0 = sub.startRange
        e0 = symbols.get(sub.endRangeSymbol)
        if s0 >= len(cmds) or cmds[s0][0] != simpleTAL.TAL_START_SCOPE or closes.get(s0) != e0:
            return ("structure", "macro/slot range %r..%r of %r is not one scope" % (s0, e0, template))
    return None


# --- oracle 3: interpreter under all environment answers -------------------------------


class OneShot:
    def __init__(self):
        self.it = iter(["i1", "i2"])

    def __iter__(self):
        return self.it


ANSWERS = [lambda: "x", lambda: None, lambda: simpleTALES.DEFAULTVALUE, lambda: "", lambda: 0, lambda: 1, lambda: [], lambda: [1, 2], lambda: OneShot(), lambda: iter(["n1"])]


def run_env(template, bound, part, label):
    t = simpleTAL.compileHTMLTemplate(template)
    bad = []

    def run(ch):
        ctx = simpleTALES.Context()
        sites = [0]
        orig = ctx.evaluate

        def evaluate(expr, originalAtts=None):
            sites[0] += 1
            if sites[0] > 400:
                raise RuntimeError("evaluation budget exceeded (runaway loop)")
            k = ch.choose(len(ANSWERS), expr)
            return ANSWERS[k]()

        ctx.evaluate = evaluate
        before = (dict(ctx.locals), list(ctx.localStack), list(ctx.repeatStack), dict(ctx.repeatMap))
        interp = simpleTAL.HTMLTemplateInterpreter()
        out = io.StringIO()
        interp.initialise(ctx, out)
        try:
            interp.execute(t)
        except Exception as e:  # noqa
            return ("exception", "%s: %s" % (type(e).__name__, e))
        cmds, s0, e0, sym = t.getProgram()
        if interp.programCounter != e0:
            return ("pc", "program counter ends at %d, program ends at %d" % (interp.programCounter, e0))
        if interp.scopeStack or interp.programStack:
            return ("stacks", "scope stack %r / program stack depth %d not empty at the end" % (interp.scopeStack, len(interp.programStack)))
        after = (dict(ctx.locals), list(ctx.localStack), list(ctx.repeatStack), dict(ctx.repeatMap))
        if after != before:
            return ("context", "context locals/stacks changed: %r -> %r" % (before, after))
        ev = talref.events_of(out.getvalue())
        depth = []
        for e in ev:
            if e[0] == "start" and e[1] not in talref.VOID:
                depth.append(e[1])
            elif e[0] == "end":
                if not depth or depth[-1] != e[1]:
                    return ("nesting", "output %r is not well nested" % out.getvalue())
                depth.pop()
        if depth:
            return ("nesting", "output %r leaves %r open" % (out.getvalue(), depth))
        return None

    def on_exec(ch, res):
        part.evaluations += 1
        part.transitions += len(ch.choices)
        part.state("env", label, tuple(ch.choices))
        part.outcome("env", res[0] if res else "", ch.deviations())
        if res:
            bad.append((res[0], res[1] + " ; answers %r for %r" % ([("x", None, "DEFAULT", "''", 0, 1, [], [1, 2], "iterable", "iterator")[c] for c in ch.choices], [p[1] for p in ch.points]), list(ch.choices)))

    n, capped = envx.explore(run, bound, on_exec, cap=20000)
    if capped:
        part.extra.setdefault("capped", []).append(label)
    return bad, n


ENV_TEMPLATES = [
    element("v1 a", "c", "it r", ("c", "x"), "title a1", "o"),
    element("v1 a", "c", "it r", ("r", "x"), "title a1", "o"),
    element(None, "c", "it r", ("c", "x"), None, None, body='<span tal:repeat="j r2" tal:content="y">in</span>'),
    element("v1 a", None, "it r", None, "title a1", None, body='<span tal:condition="c2" tal:define="v2 b" tal:omit-tag="o2">in<b tal:replace="z">b</b></span>'),
    '<div metal:define-macro="m1">[<span metal:define-slot="s">d</span>]</div><p metal:use-macro="mm"><b metal:fill-slot="s" tal:content="x">f</b></p>',
    '<ul><li tal:repeat="it r"><span tal:repeat="j r2"><b tal:condition="c" tal:content="x">b</b></span></li></ul>',
]


def _shard(shard, seed, tier):
    part = core.Partial()
    kind, items = shard
    for item in items:
        if kind == "ref":
            bad = check_reference(item)
            st = check_structure(item)
            part.evaluations += 1
            part.transitions += 2
            part.state(item)
            part.outcome("ref", bad[0] if bad else "", st[0] if st else "", item.count("tal:"))
            part.sample({"template": item}, limit=2)
            for b in (bad, st):
                if b:
                    part.violation("%s|%s" % (b[0], item), b[1], {"kind": "ref", "template": item})
        else:
            idx, bound = item
            bad, n = run_env(ENV_TEMPLATES[idx], bound, part, "T%d" % idx)
            part.sample({"template": ENV_TEMPLATES[idx], "answers_per_site": len(ANSWERS), "deviation_bound": bound, "executions": n}, limit=1)
            seen = set()
            for cls, det, choices in bad:
                k = "env|T%d|%s|%s" % (idx, ",".join(map(str, choices)), cls)
                if k in seen:
                    continue
                seen.add(k)
                part.violation(k, det, {"kind": "env", "idx": idx, "choices": choices})
    return part


def replay(case):
    if case["kind"] == "ref":
        b = check_reference(case["template"]) or check_structure(case["template"])
        return b
    part = core.Partial()
    t = ENV_TEMPLATES[case["idx"]]
    bad, _ = run_env(t, 0, part, "replay") if False else ([], 0)
    # re-run exactly the recorded answers
    ch = envx.Chooser(case["choices"])
    bad2, n = [], 0

    def once():
        return run_env(t, len([c for c in case["choices"] if c]), part, "replay")

    bad2, n = once()
    for cls, det, choices in bad2:
        if choices == case["choices"]:
            return (cls, det)
    return None


def run(ck):
    singles = single_templates(ck.tier)
    nested = nested_templates(ck.tier)
    metal = metal_templates()
    trees = tree_templates(ck.tier)
    paths = path_templates()
    items = list(dict.fromkeys(singles + nested + metal + trees + paths))
    if ck.seed:
        import random

        random.Random(ck.seed).shuffle(items)
    shards = [("ref", ch) for ch in core.chunks(items, core.NPROC * 4)]
    bound = 2 if ck.tier == "quick" else 3
    shards += [("env", [(i, bound)]) for i in range(len(ENV_TEMPLATES))]
    p = ck.pmap(_shard, shards)
    if p.extra.get("capped"):
        ck.caps.append("environment exploration capped at 20000 executions for %r" % p.extra["capped"])
    ck.rule = ("templates = one element carrying every consistent subset of the six TAL commands with every expression of per-command menus (define %d, condition %d, repeat %d, content/replace %d, attributes %d, omit-tag %d; quick: full cross on interacting axes only), "
               "%d parent x child pairs, %d three-element trees (chain and parent with two children; thorough also four-element chains) over a %d-entry element menu, %d METAL templates; each compared with the reference evaluator on the parsed event stream and checked for program structure; %d templates run with Context.evaluate answered from %d values at every site with <= %d deviations; "
               "distinct = (verdicts, number of TAL commands) / (class, deviations)" % (len(DEFINE), len(CONDITION), len(REPEAT), len(CONTENT), len(ATTRIBUTES), len(OMIT), len(nested), len(trees), len(TREE_MENU), len(metal), len(ENV_TEMPLATES), len(ANSWERS), bound))
    ck.bounds = {"templates": len(items), "env_deviations": bound}
    ck.assumptions = ["pygopherd only uses the HTML compiler; XML templates and python: semantics beyond the gate are not modelled",
                      "outputs are compared as parsed event streams (attributes as a mapping, adjacent text merged)"]

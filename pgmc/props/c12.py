"""C12 — one unservable entry never takes down its directory.

E2 fault enumeration: a 4-entry directory x every fault kind x every position
(first / middle / last in sort order) x singles and all pairs x all protocols x
{UMNDirHandler list, plain DirHandler list, ZIP directory}.  Real faults where
the OS can produce them (dangling link, FIFO, UNIX socket, names with '..'),
seam-injected ones otherwise (entry vanishing after enumeration, stat -> EACCES).
Oracle: the listing succeeds and, with the faulty names removed, equals the
listing of the same directory without faults.
"""
from __future__ import annotations

import errno
import itertools
import os
import socket

from .. import core, parsers, rig, worlds

ID = "C12"

BASE = {"f1.txt": b"one\n", "m2.txt": b"two\n", "d": {"inner.txt": b"i\n"}, "h.html": worlds.HTML}
KINDS = ["dangling", "fifo", "socket", "vanished", "eacces", "dotdot-name", "dotdir", "loop", "noread-html", "noread-mbox"]
# faults at the operating-system seam: the k-th and every later stat() of the entry fails (it was there when the
# directory was read and for the first k-1 looks); a sub-directory that may be read but not searched
OS_KINDS = ["stat%d-%s" % (k, e) for k in (1, 2, 3, 4) for e in ("enoent", "eacces")] + ["unsearchable", "nosearch"]
# dot-named variants: under the UMN handler a dot-file is read as a link file
DOT_KINDS = ["dot-dangling", "dot-fifo", "dot-socket", "dot-vanished", "dot-eacces", "dot-loop"]
POSITIONS = {"first": "0", "middle": "g", "last": "z"}
PROTOS = ["gopher", "gopherp_dir", "http", "wap", "gemini", "spartan", "sgopher"]
DIRLIST = ("[url.HTMLURLHandler, gophermap.BuckGophermapHandler, mbox.MaildirFolderHandler, mbox.MaildirMessageHandler, "
           "dir.DirHandler, html.HTMLFileTitleHandler, mbox.MBoxMessageHandler, mbox.MBoxFolderHandler, file.FileHandler]")
HANDLERS = {"umn": "default", "dir": DIRLIST, "full": "full"}
# faults that only bite with the full handler list (PYG modules, ZIP archives)
FULL_KINDS = ["dotdot-pyg", "socket-zip", "fifo-zip", "dangling-zip", "broken-pyg", "unreadable:zip", "unreadable:pyg", "unreadable:sh"]
# non-UTF-8 names with the shipped syslog logger in force
# special files sitting where the server looks for METADATA of another entry: the sidecar of a file, the
# abstract of the directory or of a sub-directory, a .cap file, the directory cache
META_NAMES = {"side": "f1.txt.abstract", "side3d": "m2.txt.3d", "dirabs": ".abstract", "subabs": "d/.abstract", "cap": ".cap/f1.txt", "cache": ".cache.pygopherd.dir", "subcache": "d/.cache.pygopherd.dir",
              # ... or where it looks for the hand-written menu of the directory (or of a sub-directory)
              "gmap": "gophermap", "subgmap": "d/gophermap"}
# (a dangling link in the place of the cache file is left out: the server writes its cache through it,
# which creates the target -- a new entry, not an unservable one)
META_KINDS = ["%s:%s" % (m, k) for m in META_NAMES for k in ("fifo", "socket", "dangling", "loop", "dir") if not (m.endswith("cache") and k == "dangling")]
# ... and with logmethod = file, standard output being a strict UTF-8 text stream (redirected to a log file)
FILELOG_KINDS = ["dangling-latin1f", "fifo-latin1f", "dotdot-latin1f", "vanished-latin1f"]
# a directory that holds NOTHING servable: only faulty entries (alone and as pairs)
ONLY_KINDS = ["dangling", "fifo", "socket", "vanished", "eacces", "dotdot-name", "loop"]
SYSLOG_KINDS = ["dangling-latin1", "fifo-latin1", "dotdot-latin1", "vanished-latin1"]


def fault_name(kind, pos):
    if kind.startswith("unreadable:"):
        return POSITIONS[pos] + "-noread." + kind.split(":")[1]
    if ":" in kind:
        return META_NAMES[kind.split(":")[0]]
    if kind.startswith("dot-"):
        return "." + POSITIONS[pos] + kind[4:]
    stem = POSITIONS[pos] + "-" + kind
    if kind == "dotdot-name":
        return POSITIONS[pos] + "a..b.txt"
    if kind == "noread-html":
        return POSITIONS[pos] + "-noread.html"
    if kind == "noread-mbox":
        return POSITIONS[pos] + "-noread.mbox"
    if kind.startswith("unreadable:"):
        return POSITIONS[pos] + "-noread." + kind.split(":")[1]
    if kind == "dotdot-pyg":
        return POSITIONS[pos] + "a..b.pyg"
    if kind == "broken-pyg":
        return POSITIONS[pos] + "broken..x.pyg"
    if kind.endswith("-zip"):
        return POSITIONS[pos] + "-" + kind[:-4] + ".zip"
    if kind.endswith("-latin1f"):
        kind = kind[:-1]
    if kind.endswith("-latin1"):
        return POSITIONS[pos] + "caf\udce9-" + kind[:-7] + (".." if kind.startswith("dotdot") else "") + ".txt"
    if kind == "dotdir":
        return POSITIONS[pos] + "dir."
    return stem


_ghosts = set()   # selectors listdir should invent
_eacces = set()   # selectors whose stat fails with EACCES
_eopen = set()    # selectors whose open fails with EACCES
_patched = False
_os_stat_fail = {}   # absolute path -> [calls so far, first failing call, errno]
_os_prefix_fail = set()  # absolute directory paths below which every stat/listdir/open fails with EACCES
_os_nosearch = set()  # directories that may be read (listdir works) but not searched (mode r--): every stat below fails


def _patch():
    global _patched
    if _patched:
        return
    from pygopherd.handlers.base import VFS_Real

    o_listdir = VFS_Real.listdir
    o_stat = VFS_Real.stat

    def listdir(self, selector):
        out = o_listdir(self, selector)
        base = selector.rstrip("/")
        for g in sorted(_ghosts):
            d, n = g.rsplit("/", 1)
            if d == base and type(self) is VFS_Real:
                out.append(n)
        return out

    def stat(self, selector):
        if selector in _eacces and type(self) is VFS_Real:
            raise PermissionError(errno.EACCES, "Permission denied (injected)")
        return o_stat(self, selector)

    o_open = VFS_Real.open

    def open_(self, selector, *a, **k):
        if selector in _eopen and type(self) is VFS_Real:
            raise PermissionError(errno.EACCES, "Permission denied (injected)")
        return o_open(self, selector, *a, **k)

    VFS_Real.open = open_
    VFS_Real.listdir = listdir
    VFS_Real.stat = stat
    import builtins

    def _os_fault(path):
        try:
            sp = os.fsdecode(path) if not isinstance(path, int) else None
        except Exception:  # noqa
            sp = None
        if sp is None:
            return
        rec = _os_stat_fail.get(sp)
        if rec is not None:
            rec[0] += 1
            if rec[0] >= rec[1]:
                raise OSError(rec[2], os.strerror(rec[2]) + " (injected)", sp)
        for pre in list(_os_prefix_fail) + list(_os_nosearch):
            if sp.startswith(pre + "/"):
                raise PermissionError(errno.EACCES, "Permission denied (injected)", sp)

    o_os_stat, o_os_lstat, o_os_listdir, o_builtin_open = os.stat, os.lstat, os.listdir, builtins.open

    def os_stat(path, *a, **k):
        _os_fault(path)
        return o_os_stat(path, *a, **k)

    def os_lstat(path, *a, **k):
        _os_fault(path)
        return o_os_lstat(path, *a, **k)

    def os_listdir(path=".", *a, **k):
        sp = os.fsdecode(path) if not isinstance(path, int) else None
        if sp in _os_prefix_fail:
            raise PermissionError(errno.EACCES, "Permission denied (injected)", sp)
        return o_os_listdir(path, *a, **k)

    os.stat, os.lstat, os.listdir = os_stat, os_lstat, os_listdir
    _patched = True


def _plant(root, d, kind, pos):
    """Create the fault in directory d (relative to root); returns the set of
    names that may legitimately be missing from the listing."""
    name = fault_name(kind, pos)
    p = os.path.join(root, d, name)
    sel = "/" + d + "/" + name
    p = os.fsencode(p) if "\udce9" in name else p
    if kind.startswith("unreadable:"):
        what = kind.split(":")[1]
        rig.write_file(p, {"zip": worlds.make_zip([("a.txt", b"a\n")]), "pyg": worlds.PYG, "sh": worlds.SCRIPT}[what], mode=0o755 if what in ("pyg", "sh") else None)
        _eopen.add(sel)
        return name
    if ":" in kind:
        kind = kind.split(":")[1]
        os.makedirs(os.path.dirname(p), exist_ok=True)
        if os.path.lexists(p):
            os.unlink(p)  # the cache file written by the baseline listing
        if kind == "dir":
            os.makedirs(p)
            return name
    if kind.startswith("stat") and "-" in kind and kind[4].isdigit():
        rig.write_file(p, b"here for a while\n")
        _os_stat_fail[p] = [0, int(kind[4]), errno.ENOENT if kind.endswith("enoent") else errno.EACCES]
        return name
    if kind in ("unsearchable", "nosearch"):
        os.makedirs(p)
        rig.write_file(os.path.join(p, "inner.txt"), b"i\n")
        rig.write_file(os.path.join(p, "gophermap"), b"never readable\n")
        rig.write_file(os.path.join(p, ".links"), b"Name=never readable either\nType=1\nPath=/x\nHost=h\nPort=70\n")
        (_os_prefix_fail if kind == "unsearchable" else _os_nosearch).add(p)
        return name
    if kind in ("dotdot-pyg", "broken-pyg"):
        rig.write_file(p, b"raise RuntimeError('this module must never be imported')\n", mode=0o755)
        return name
    if kind.endswith("-latin1f"):
        kind = kind[:-1]
    if kind.endswith("-zip") or kind.endswith("-latin1"):
        kind = kind.rsplit("-", 1)[0]
        if kind == "dotdot":
            rig.write_file(p, b"dots\n")
            return name
    if kind.startswith("dot-"):
        kind = kind[4:]
        if kind == "eacces":
            rig.write_file(p, b"Name=unreadable link file\nType=1\nPath=/x\nHost=h\nPort=70\n")
            _eopen.add(sel)
            return name
    if kind in ("noread-html", "noread-mbox"):
        # a file that is there (stat works) but may not be opened: handlers that look inside get EACCES
        rig.write_file(p, {"noread-html": worlds.HTML, "noread-mbox": worlds.MBOX}[kind])
        _eopen.add(sel)
        return name
    if kind == "dangling":
        os.symlink("no-such-target", p)
    elif kind == "loop":
        os.symlink(name, p)
    elif kind == "fifo":
        os.mkfifo(p)
    elif kind == "socket":
        s = socket.socket(socket.AF_UNIX)
        cwd = os.getcwd()
        os.chdir(os.path.dirname(p))
        try:
            s.bind(os.fsencode(os.path.basename(name)))
        finally:
            os.chdir(cwd)
            s.close()
    elif kind == "vanished":
        _ghosts.add(sel)
    elif kind == "eacces":
        rig.write_file(p, b"unreadable\n")
        _eacces.add(sel)
    elif kind == "dotdot-name":
        rig.write_file(p, b"dots\n")
    elif kind == "dotdir":
        os.makedirs(p)
        rig.write_file(os.path.join(p, "child.txt"), b"c\n")
    return name


def _entries(proto, out):
    fam = {"gopher": "gopher", "sgopher": "gopher", "gopherp_dir": "gopherp", "http": "http", "wap": "wap", "gemini": "gemini", "spartan": "spartan"}[proto]
    cls, ct, body = parsers.classify(fam, out)
    if cls == "notfound" or cls == "invalid":
        return None
    if fam == "gopher":
        es = parsers.parse_gopher_menu(body)
    elif fam == "gopherp":
        es = parsers.parse_gopherp_dir(body)
    elif fam == "http":
        es = parsers.parse_http_listing(body)
    elif fam == "wap":
        es = parsers.parse_wap_listing(body)
    else:
        es = parsers.parse_gemtext_listing(body, spartan=(fam == "spartan"))
    return [(e["info"], e["name"], e["target"]) for e in es]


_syslog_on = False


def _use_syslog(on):
    """Put the shipped logger (syslog) in force, with syslog() replaced by a stub that is as strict
    about its argument as the real one (it encodes to UTF-8 and rejects lone surrogates)."""
    global _syslog_on
    from pygopherd import logger

    if on:
        def fake_syslog(priority, message):
            message.encode("utf-8")

        logger.syslogfunc = fake_syslog
        logger.priority = 6
        logger.log = logger.log_syslog
    else:
        logger.log = rig.LOG
    _syslog_on = on


_real_stdout = None


def _use_filelog(on):
    """logmethod = file with sys.stdout a strict UTF-8 text stream, as when it is redirected to a file."""
    global _real_stdout
    import io
    import sys

    from pygopherd import logger

    if on:
        _real_stdout = sys.stdout
        sys.stdout = io.TextIOWrapper(io.BytesIO(), encoding="utf-8", errors="strict")
        logger.log = logger.log_file
    elif _real_stdout is not None:
        sys.stdout = _real_stdout
        _real_stdout = None
        logger.log = rig.LOG


def _run_case(hname, faults, zipmode=False, hide=False, only=False):
    """faults: tuple of (kind, pos). -> list of (proto, class, detail)"""
    _patch()
    _use_syslog(any(k.endswith("-latin1") for k, _ in faults))
    _use_filelog(any(k.endswith("-latin1f") for k, _ in faults))
    _ghosts.clear()
    _eacces.clear()
    _eopen.clear()
    _os_stat_fail.clear()
    _os_prefix_fail.clear()
    _os_nosearch.clear()
    w = rig.World({"t": ({} if only else {k: (dict(v) if isinstance(v, dict) else v) for k, v in BASE.items()})}, handlers=HANDLERS[hname], cachetime=0, tag="c12")
    bad = []
    try:
        base = {}
        for p in PROTOS:
            data, tls = rig.request(p, "/t")
            r = w.serve(data, tls)
            base[p] = _entries(p, r.out)
            if base[p] is None or r.internal_error:
                raise core.HarnessError("baseline listing failed for %s: %r" % (p, r.out[:100]))
        names = set()
        for kind, pos in faults:
            names.add(_plant(w.root, "t", kind, pos))
        if hide:
            # the administrator hides the broken entries with the documented Type=X block
            blocks = b"".join(b"Type=X\nPath=./" + n.encode() + b"\n\n" for n in sorted(names))
            rig.write_file(os.path.join(w.root, "t", ".names"), blocks)
        for p in PROTOS:
            for rec in _os_stat_fail.values():
                rec[0] = 0  # every request sees the entry appear and then go away
            data, tls = rig.request(p, "/t")
            r = w.serve(data, tls)
            if r.internal_error:
                bad.append((p, "error", r.describe_error()))
                if isinstance(r.escaped, rig.RequestTimeout):
                    break  # a hanging request: the other protocols would hang the same way
                continue
            try:
                got = _entries(p, r.out)
            except ValueError as e:
                bad.append((p, "unparsable", str(e)))
                continue
            if got is None:
                bad.append((p, "listing-failed", "listing of /t answered %r" % r.out[:120]))
                continue
            bnames = {n.encode("utf-8", "surrogateescape") for n in names} | {n.encode("utf-8", "surrogateescape").replace(b"\xe9", b"\\xe9") for n in names}
            kept = [e for e in got if not any(bn in e[1] or (len(e[2]) > 1 and bn in e[2][-1]) for bn in bnames)]
            if kept != base[p]:
                bad.append((p, "entries-lost", "with faults %r the other entries are %r, without faults %r" % (faults, kept[:6], base[p][:6])))
        if any(k == "nosearch" for k, _ in faults):
            # ... and the directory itself, which may be read but not searched: every entry in it is unservable
            # (none can be inspected), so its own listing is empty -- not an error
            name = [fault_name(k, pos) for k, pos in faults if k == "nosearch"][0]
            for p in ("gopher", "gopherp_dir", "http", "gemini", "spartan"):
                data, tls = rig.request(p, "/t/" + name)
                r = w.serve(data, tls)
                try:
                    got = None if r.internal_error else _entries(p, r.out)
                except ValueError:
                    got = None
                if got is None:
                    bad.append((p, "unsearchable-listing-failed", "listing of /t/%s (readable, not searchable) answered %r (%s)" % (name, r.out[:100], r.describe_error())))
        if any(k == "dotdir" for k, _ in faults):
            # the directory whose children are all rejected by the selector filter still lists (empty)
            name = [fault_name(k, pos) for k, pos in faults if k == "dotdir"][0]
            for p in ("gopher", "http", "gemini"):
                data, tls = rig.request(p, "/t/" + name)
                r = w.serve(data, tls)
                fam = {"gopher": "gopher", "http": "http", "gemini": "gemini"}[p]
                if r.internal_error or parsers.classify(fam, r.out)[0] in ("notfound", "invalid"):
                    bad.append((p, "dotdir-listing-failed", "listing of /t/%s answered %r (%s)" % (name, r.out[:100], r.describe_error())))
    finally:
        _use_syslog(False)
        _use_filelog(False)
        _ghosts.clear()
        _eacces.clear()
        _eopen.clear()
        _os_stat_fail.clear()
        _os_prefix_fail.clear()
        _os_nosearch.clear()
        w.destroy()
    return bad


ZIP_MEMBERS = [
    [("ok.txt", b"ok\n"), ("a..b.txt", b"dots\n"), ("sub/ok2.txt", b"ok2\n")],
    [("ok.txt", b"ok\n"), ("../evil.txt", b"evil\n"), ("sub/ok2.txt", b"ok2\n")],
    [("ok.txt", b"ok\n"), ("x./child.txt", b"c\n"), ("zz.txt", b"zz\n")],
    [("ok.txt", b"ok\n"), ("sub/ok2.txt", b"ok2\n"), ("sub/..", b"dd\n"), ("sub/a\\\\b", b"bs\n")],
]
ZIP_GOOD = [("ok.txt", b"ok\n"), ("sub/ok2.txt", b"ok2\n")]


def _run_zip(i):
    bad = []
    members = ZIP_MEMBERS[i]
    w = rig.World({"z.zip": worlds.make_zip(members), "good.zip": worlds.make_zip([m for m in members if m[0] in ("ok.txt", "sub/ok2.txt", "zz.txt")])},
                  handlers="full", cachetime=0, tag="c12z")
    try:
        for p in PROTOS:
            for sub in ("", "/sub"):
                if sub and not any(m[0].startswith("sub/") for m in members):
                    continue
                r = w.serve(*rig.request(p, "/z.zip" + sub))
                g = w.serve(*rig.request(p, "/good.zip" + sub))
                if r.internal_error:
                    bad.append((p, "error", r.describe_error()))
                    continue
                got = _entries(p, r.out)
                want = _entries(p, g.out)
                if got is None:
                    bad.append((p, "listing-failed", "listing of /z.zip%s answered %r" % (sub, r.out[:120])))
                    continue
                names = [e[1] for e in got]
                missing = [e[1] for e in want if e[1] not in names]
                if missing:
                    bad.append((p, "entries-lost", "archive with an unservable member lists %r; entries %r are missing" % (names, missing)))
    finally:
        w.destroy()
    return bad


def _shard(shard, seed, tier):
    part = core.Partial()
    rig.REQUEST_TIME_LIMIT = 3
    hangs = 0
    for item in shard:
        if hangs >= 3:
            part.extra.setdefault("capped", []).append("shard aborted after %d hanging requests" % hangs)
            break
        if item[0] == "zip":
            bad = _run_zip(item[1])
            label = "zip|%d" % item[1]
            case = {"kind": "zip", "i": item[1]}
        else:
            _, hname, faults = item[:3]
            hide = len(item) > 3 and item[3] is True
            only = len(item) > 3 and item[3] == "only"
            bad = _run_case(hname, faults, hide=hide, only=only)
            label = "%s%s%s|%s" % (hname, "+hidden" if hide else "", "+nothing-else" if only else "", "+".join("%s@%s" % f for f in faults))
            case = {"kind": "dir", "hname": hname, "faults": [list(f) for f in faults], "hide": hide, "only": only}
        part.evaluations += len(PROTOS)
        part.transitions += len(PROTOS) * 2
        part.state(label)
        part.outcome(label.split("|")[0], tuple(sorted(set(b[1] for b in bad))), item[2][0][0] if item[0] == "dir" else "zip")
        part.sample({"case": label, "protocols": PROTOS}, limit=2)
        if any("RequestTimeout" in b[2] for b in bad):
            hangs += 1
        seen = set()
        for p, cls, det in bad:
            k = "%s|%s|%s" % (label, p, cls)
            if k in seen:
                continue
            seen.add(k)
            part.violation(k, det, case)
    return part


def _shard_real(shard, seed, tier):
    """A real deployment that has dropped to `nobody`, with entries that only an unprivileged process cannot
    serve: a directory it may not search, one it may search but not read, a file it may not read, a dangling
    link, a FIFO.  The listing of the parent still succeeds and shows everything else."""
    from .. import deploy

    part = core.Partial()
    for stype in shard:
        if not deploy.supported({"drop": True}):
            part.count("deploy_mode_not_possible_here")
            continue
        spec = {"t": {"f1.txt": b"one\n", "m2.txt": b"two\n", "d": {"inner.txt": b"i\n"}, "h.html": worlds.HTML,
                      "locked": {"inner.txt": b"x\n", "gophermap": b"never readable\n"}, "listonly": {"inner.txt": b"y\n"}, "noread.txt": b"secret\n", "znoread.html": worlds.HTML,
                      "noread.mbox": worlds.MBOX, "gmdir": {"gophermap": b"1Up\t..\n", "x.txt": b"x\n"}, "mdlike": {"cur": {}, "new": {}, "tmp": {}}}}
        srv = None

        def lock(root):
            os.chmod(os.path.join(root, "t", "locked"), 0o700)
            os.chmod(os.path.join(root, "t", "listonly"), 0o744)
            os.chmod(os.path.join(root, "t", "noread.txt"), 0o600)
            os.chmod(os.path.join(root, "t", "znoread.html"), 0o600)
            os.chmod(os.path.join(root, "t", "noread.mbox"), 0o600)
            os.chmod(os.path.join(root, "t", "gmdir", "gophermap"), 0o600)
            os.chmod(os.path.join(root, "t", "mdlike", "cur"), 0o700)
            os.symlink("nowhere", os.path.join(root, "t", "dangling"))
            os.mkfifo(os.path.join(root, "t", "pipe"))

        # the tree must be in its final state before the server starts: build, lock, then launch
        import types

        orig_build = rig.build_tree

        def build_and_lock(root, sp, *a, **k):
            orig_build(root, sp, *a, **k)

        srv = deploy.Server.__new__(deploy.Server)
        try:
            deploy.Server.__init__(srv, spec, {"drop": True, "servertype": stype, "preexec": None}, handlers="default", tag="c12r")
            bad = []
            if not srv.started:
                bad.append(("no-start", "deployment did not come up: %r" % srv.log()[-300:]))
            else:
                lock(srv.root)
                for proto in ("gopher", "gopherp_dir", "http", "spartan"):
                    data, tls = rig.request(proto, "/t")
                    got, err = srv.fetch(data, tls)
                    missing = [n for n in (b"f1", b"m2", b"/t/d", b"h.html") if n not in got]
                    if err or missing or (proto == "gopher" and got.startswith(b"3")):
                        bad.append(("listing-lost", "server running as nobody, directory with entries it may not search/read: the %s listing of /t is %r %s (missing %r); log: %r" % (
                            proto, got[:160], err or "", missing, srv.log()[-300:])))
                if srv.ids()[0] != (deploy.NOBODY_UID,) * 3:
                    raise core.HarnessError("the deployment did not drop its ids: %r" % (srv.ids(),))
        finally:
            srv.stop()
        part.evaluations += 4
        part.transitions += 4
        part.state("real", stype)
        part.outcome("real", stype, tuple(b[0] for b in bad))
        for cls, det in bad:
            part.violation("real|%s|%s" % (stype, cls), det, {"kind": "real", "stype": stype})
    return part


def replay(case):
    if case["kind"] == "real":
        p = _shard_real([case["stype"]], 0, "quick")
        return (p.violations[0][0].rsplit("|", 1)[1], p.violations[0][1]) if p.violations else None
    if case["kind"] == "zip":
        bad = _run_zip(case["i"])
    else:
        bad = _run_case(case["hname"], tuple(tuple(f) for f in case["faults"]), hide=case.get("hide", False), only=case.get("only", False))
    return (bad[0][1], bad[0][2]) if bad else None


def run(ck):
    singles = [(k, p) for k in KINDS for p in POSITIONS] + [(k, "middle") for k in DOT_KINDS]
    cases = []
    for k in FULL_KINDS:
        for p in POSITIONS:
            cases.append(("dir", "full", ((k, p),)))
            cases.append(("dir", "full", ((k, p), ("dangling", "middle" if p != "middle" else "last"))))
    for k in SYSLOG_KINDS:
        for h in ("umn", "dir", "full"):
            for p in POSITIONS:
                cases.append(("dir", h, ((k, p),)))
    for k in KINDS:
        cases.append(("dir", "full", ((k, "middle"),)))
    for k in FILELOG_KINDS:
        for h in ("umn", "dir", "full"):
            cases.append(("dir", h, ((k, "middle"),)))
    for h in ("umn", "dir"):
        for k in ONLY_KINDS:
            cases.append(("dir", h, ((k, "middle"),), "only"))
        for k1, k2 in itertools.combinations(ONLY_KINDS, 2):
            cases.append(("dir", h, ((k1, "first"), (k2, "last")), "only"))
    for k in OS_KINDS:
        for h in ("umn", "dir", "full"):
            for pos in POSITIONS:
                cases.append(("dir", h, ((k, pos),)))
        cases.append(("dir", "umn", ((k, "first"), ("fifo", "last"))))
    for k in META_KINDS:
        for h in ("umn", "dir", "full"):
            cases.append(("dir", h, ((k, "first"),)))
        cases.append(("dir", "umn", ((k, "first"), ("dangling", "middle"))))
    for h in ("umn", "dir"):
        for s in singles:
            cases.append(("dir", h, (s,)))
            if h == "umn" and not s[0].startswith("dot-"):
                cases.append(("dir", h, (s,), True))
        pair_kinds = KINDS if ck.tier == "thorough" else KINDS
        for (k1, p1), (k2, p2) in itertools.combinations(singles, 2):
            if k1 == k2 and p1 == p2:
                continue
            if ck.tier == "quick" and h == "dir" and (k1, k2) not in (("dangling", "fifo"), ("vanished", "eacces"), ("socket", "dotdot-name")):
                continue
            cases.append(("dir", h, ((k1, p1), (k2, p2))))
    for i in range(len(ZIP_MEMBERS)):
        cases.append(("zip", i))
    if ck.seed:
        import random

        random.Random(ck.seed).shuffle(cases)
    ck.pmap(_shard_real, [["ForkingTCPServer"], ["ThreadingTCPServer"]])
    pr = ck.pmap(_shard, core.chunks(cases, core.NPROC * 2))
    if pr.extra.get("capped"):
        ck.caps.append("%d shard(s) aborted early after hanging requests" % len(pr.extra["capped"]))
    ck.rule = ("fault sets = singles (%d kinds x 3 sort positions) and pairs of faulty entries planted in a 4-entry directory, x handler lists {UMN (shipped), plain DirHandler}, x %d protocols; "
               "special files in %d metadata positions (sidecar, directory abstract, .cap file, cache file, gophermap); plus %d ZIP archives with an unservable member; distinct = (handler list, verdict classes, first fault kind)" % (len(KINDS), len(PROTOS), len(META_NAMES), len(ZIP_MEMBERS)))
    ck.bounds = {"fault_sets": len(cases), "protocols": len(PROTOS)}
    ck.assumptions = ["'entry deleted between enumeration and inspection' is produced by letting the directory enumeration report a name that does not exist; stat -> EACCES is injected at the VFS seam (the checks run as root)"]

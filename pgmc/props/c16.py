"""C16 — ZIP archives are transparent.

E1: archives = every subset of <= 3 (quick) / <= 4 (thorough) member kinds out of
18 (files, nested and explicit/implicit directories, dot-files, UMN and gophermap
metadata, sidecars, UTF-8 and CP437 names, relative/absolute/dangling/cyclic/
escaping symlink members), each built twice: extracted under /T and zipped as
/T.zip.  Every member selector, every directory and three missing names are
requested through five protocol forms on both; the responses must agree after
removing the selector prefix and timestamps.  Separately: archives holding
mailbox-, Maildir-, script- and PYG-shaped members must serve them as plain
files/directories with no process launch, no open outside the root.
"""
from __future__ import annotations

import itertools
import os
import re
import zipfile

from .. import core, monitor, parsers, rig, worlds

ID = "C16"

FORMS = ["gopher", "gopherp_info", "gopherp_dir", "http", "gemini"]

# kind -> list of ("file", path, bytes) | ("dir", path) | ("link", path, target)
KINDS = {
    "f": [("file", "f.txt", b"file f\n")],
    "subg": [("file", "sub/g.txt", b"file g\n")],
    "explicit-dir": [("dir", "sub/"), ("file", "sub/h.txt", b"h\n")],
    "deep": [("file", "a/b/c/deep.txt", b"deep\n")],
    "names": [("file", "f.txt", b"file f\n"), ("file", ".names", b"Path=./f.txt\nName=Renamed F\nNumb=1\n")],
    "gophermap": [("file", "gm/gophermap", b"info\n0Rel\trel.txt\n1Up\t..\n"), ("file", "gm/rel.txt", b"rel\n")],
    "abstract": [("file", "f.txt", b"file f\n"), ("file", "f.txt.abstract", b"about f\nmore\n")],
    "cap": [("file", "f.txt", b"file f\n"), ("file", ".cap/f.txt", b"Name=Capped F\nNumb=-1\n")],
    "utf8": [("file", "été.txt", b"utf8 name\n")],
    "cp437": [("rawfile", b"caf\x82.txt", b"cp437 name\n")],
    "link-file": [("file", "f.txt", b"file f\n"), ("link", "lf.txt", "f.txt")],
    "link-dir": [("file", "sub/g.txt", b"file g\n"), ("link", "ld", "sub")],
    "link-up": [("file", "f.txt", b"file f\n"), ("file", "sub/g.txt", b"file g\n"), ("link", "sub/up.txt", "../f.txt")],
    "link-abs": [("file", "f.txt", b"file f\n"), ("link", "abs.txt", "/f.txt")],
    "dangling": [("file", "f.txt", b"file f\n"), ("link", "dang.txt", "nowhere.txt")],
    "cycle": [("file", "f.txt", b"file f\n"), ("link", "c1", "c2"), ("link", "c2", "c1")],
    "html": [("file", "p.html", worlds.HTML)],
    "bom-sidecar": [("file", "f.txt", b"file f\n"), ("file", "f.txt.abstract", b"\xef\xbb\xbfabstract that starts with a BOM\n")],
    "bom-links": [("file", "f.txt", b"file f\n"), ("file", ".links", b"\xef\xbb\xbfName=First Link\nType=1\nPath=/x\nHost=h.example\nPort=70\n\nName=Second\nType=0\nPath=/y\nHost=h.example\nPort=70\n")],
    "empty-dir": [("dir", "spool/"), ("link", "inbox", "spool"), ("file", "papers/p.txt", b"p\n"), ("link", "papers/upload-here", "../spool"),
                  ("file", "menu/gophermap", b"1Drop box\t../spool\n0A file\t../papers/p.txt\n")],
    "latin1-sidecar": [("file", "menu.txt", b"menu\n"), ("file", "menu.txt.abstract", b"caf\xe9 au lait\n")],
    "latin1-names": [("file", "f.txt", b"file f\n"), ("file", ".names", b"Path=./f.txt\nName=caf\xe9 f\n")],
    "space": [("file", "sp ace/a&b.txt", b"odd names\n")],
    # characters that str.splitlines() treats as line ends but a file's readline() does not
    "ff-gophermap": [("file", "ffm/gophermap", b"info with \x0c form feed\n0Doc \x1c with fs\trel.txt\ninfo \xc2\x85 nel and \xe2\x80\xa8 ls\n1V\x0bT\t..\n"), ("file", "ffm/rel.txt", b"rel\n")],
    "ff-names": [("file", "f.txt", b"file f\n"), ("file", ".names", b"Path=./f.txt\nName=Form\x0cFeed Name\nAbstract=abs \x1d gs\nNumb=3\n")],
    "ff-sidecar": [("file", "f.txt", b"file f\n"), ("file", "f.txt.abstract", b"line one\x0cstill line one\nline two \x0b vt\n\x1eline three\n")],
    # compressed documents (served decompressed where a decompressor is configured)
    "gz-member": [("file", "c.txt.gz", worlds.gz(b"compressed member\n" * 20)), ("file", "sub/d.html.gz", worlds.gz(worlds.HTML))],
    # members stored without a usable date (all-zero DOS date and time, as some archivers write) or with an impossible one
    "zero-date": [("file", "old.txt", b"old\n", (1980, 0, 0, 0, 0, 0)), ("file", "sub/older.txt", b"older\n", (1980, 0, 0, 0, 0, 0)), ("file", "odd.txt", b"odd\n", (2107, 15, 31, 31, 63, 62))],
    # archives with nothing in them, or nothing that resolves
    "empty": [], "only-dangling": [("link", "dang.txt", "nowhere.txt")], "only-cycle": [("link", "c1", "c2"), ("link", "c2", "c1")],
    # links resolved through other links, to the archive root, and with a trailing slash
    "link-chain": [("file", "real/f.txt", b"real f\n"), ("link", "alink.txt", "zdir/f.txt"), ("link", "zdir", "real"), ("link", "sub/through.txt", "../zdir/f.txt"), ("link", "sub/zz", "../zdir")],
    # member paths that contain the archive's own file name again (with decoys where a removal of every occurrence would land)
    "named-like-archive": [("file", "sums/tree.zip.md5", b"d41d8cd9  tree.zip\n"), ("file", "sums.md5", b"decoy sums\n"), ("file", "old/tree.zip/inner.txt", b"inner\n"), ("file", "old/inner.txt", b"decoy inner\n")],
    "link-root": [("file", "f.txt", b"file f\n"), ("file", "sub/g.txt", b"file g\n"), ("link", "toroot", "."), ("link", "sub/up", ".."), ("link", "sub/here", "."), ("link", "abs-slash", "/sub/"), ("link", "rel-slash", "sub/")],
}
ESCAPES = [("link", "sub/esc.txt", "../../outside.txt"), ("link", "esc2.txt", "../outside.txt"), ("link", "absout.txt", "/../outside.txt"), ("link", "sub/clamped.txt", "../../f.txt"), ("link", "empty-target", "")]


class _RawInfo(zipfile.ZipInfo):
    def _encodeFilenameFlags(self):
        return self.rawname, self.flag_bits


def build_zip(entries):
    import io

    buf = io.BytesIO()
    seen = set()
    with zipfile.ZipFile(buf, "w") as z:
        for e in entries:
            if e[1] in seen:
                continue
            seen.add(e[1])
            if e[0] == "file":
                zi = zipfile.ZipInfo(e[1], date_time=e[3] if len(e) > 3 else (2004, 1, 1, 0, 0, 0))
                zi.external_attr = 0o100644 << 16
                z.writestr(zi, e[2])
            elif e[0] == "rawfile":
                zi = _RawInfo(e[1].decode("cp437"), date_time=(2004, 1, 1, 0, 0, 0))
                zi.rawname = e[1]
                zi.external_attr = 0o100644 << 16
                z.writestr(zi, e[2])
            elif e[0] == "dir":
                zi = zipfile.ZipInfo(e[1], date_time=(2004, 1, 1, 0, 0, 0))
                zi.external_attr = (0o40755 << 16) | 0x10
                z.writestr(zi, b"")
            elif e[0] == "link":
                zi = zipfile.ZipInfo(e[1], date_time=(2004, 1, 1, 0, 0, 0))
                zi.external_attr = 0o120777 << 16
                z.writestr(zi, e[2])
    return buf.getvalue()


def extract(entries, base):
    """The same tree on disk under `base`; absolute links are archive-root relative."""
    seen = set()
    for e in entries:
        if e[1] in seen:
            continue
        seen.add(e[1])
        if e[0] == "file":
            rig.write_file(os.path.join(base, e[1]), e[2], mtime=1072915200)
        elif e[0] == "rawfile":
            rig.write_file(os.path.join(os.fsencode(base), e[1]), e[2], mtime=1072915200)
        elif e[0] == "dir":
            os.makedirs(os.path.join(base, e[1]), exist_ok=True)
        elif e[0] == "link":
            p = os.path.join(base, e[1])
            os.makedirs(os.path.dirname(p), exist_ok=True)
            tgt = e[2]
            if tgt.startswith("/"):
                tgt = os.path.relpath(os.path.join(base, tgt.lstrip("/")), os.path.dirname(p))
            os.symlink(tgt, p)


_STRIP = [
    (re.compile(rb"Last-Modified: [^\r\n]*\r\n"), b""),
    (re.compile(rb" Mod-Date: [^\r\n]*\r\n"), b""),
]


def norm(out: bytes, zipside: bool):
    for rx, rep in _STRIP:
        out = rx.sub(rep, out)
    # (on both sides: member names may contain the archive's own file name)
    out = out.replace(b"tree.zip", b"tree")
    return out


def selectors(entries):
    sels = {""}
    for e in entries:
        path = e[1].decode("latin-1") if isinstance(e[1], bytes) else e[1]
        path = path.rstrip("/")
        parts = path.split("/")
        for i in range(1, len(parts) + 1):
            sels.add("/" + "/".join(parts[:i]))
        if e[0] == "link":
            sels.add("/" + path + "/g.txt")
            sels.add("/" + path + "/f.txt")
            sels.add("/" + path + "/sub")
    sels.update({"/missing.txt", "/sub/missing", "/f.txt/x"})
    return sorted(sels)


def _sel_bytes(s, entries):
    # the cp437 raw name is carried as latin-1 in `selectors`
    return s.encode("latin-1") if any(isinstance(e[1], bytes) for e in entries) and "\x82" in s else s.encode("utf-8")


def check_archive(kinds):
    entries = []
    for k in kinds:
        entries.extend(KINDS[k])
    w = rig.World({"outside.txt": b"OUTSIDE THE ARCHIVE\n"}, handlers="full", cachetime=0, tag="c16")
    bad = []
    n = 0
    try:
        extract(entries, os.path.join(w.root, "tree"))
        os.makedirs(os.path.join(w.root, "tree"), exist_ok=True)
        rig.write_file(os.path.join(w.root, "tree.zip"), build_zip(entries))
        for s in selectors(entries):
            sb = _sel_bytes(s, entries)
            for form in FORMS:
                a = w.serve(*rig.request(form, b"/tree" + sb))
                b = w.serve(*rig.request(form, b"/tree.zip" + sb))
                n += 2
                if b.internal_error:
                    bad.append((form, s, "error", "archive side: %s" % b.describe_error()))
                    continue
                if a.internal_error:
                    continue
                na, nb = norm(a.out, False), norm(b.out, True)
                if na != nb:
                    i = next((j for j in range(min(len(na), len(nb))) if na[j] != nb[j]), min(len(na), len(nb)))
                    bad.append((form, s, "differs", "selector %r via %s: extracted tree answers %r, archive answers %r (first difference at byte %d: %r vs %r)" % (
                        s, form, na[:100], nb[:100], i, na[i:i + 40], nb[i:i + 40])))
    finally:
        w.destroy()
    return bad, n


SPECIAL = [("file", "box/in", worlds.MBOX), ("file", "m.mbox", worlds.MBOX), ("file", "md/cur/1:2,S", worlds.MAIL1), ("dir", "md/new/"), ("dir", "md/tmp/"), ("file", "plain.txt", b"plain\n")]


def check_special(cwdmode):
    """Members shaped like mailboxes, Maildirs, scripts and PYG modules."""
    import io

    order = "full"
    if cwdmode.endswith("+zipfirst"):
        # "the handlers are tried in the order listed": the same list with the archive handler in front
        cwdmode = cwdmode[: -len("+zipfirst")]
        order = "[ZIP.ZIPHandler, " + rig.full_handler_list().strip()[1:].replace("ZIP.ZIPHandler,", "")

    buf = io.BytesIO()
    canary = os.path.join(rig.scratch_root(), "c16-canary-%d" % os.getpid())
    script = ("#!/bin/sh\necho ran > %s\necho SCRIPT-RAN\n" % canary).encode()
    pyg = ("open(%r, 'w').write('imported')\n" % canary).encode() + worlds.PYG
    with zipfile.ZipFile(buf, "w") as z:
        for e in SPECIAL:
            zi = zipfile.ZipInfo(e[1], date_time=(2004, 1, 1, 0, 0, 0))
            if e[0] == "dir":
                zi.external_attr = (0o40755 << 16) | 0x10
                z.writestr(zi, b"")
            else:
                zi.external_attr = 0o100644 << 16
                z.writestr(zi, e[2])
        for name, data in (("s.sh", script), ("p.pyg", pyg)):
            zi = zipfile.ZipInfo(name, date_time=(2004, 1, 1, 0, 0, 0))
            zi.external_attr = 0o100755 << 16
            z.writestr(zi, data)
    base = rig.fresh_dir("c16s")
    root = os.path.join(base, "site", "root")
    os.makedirs(root)
    rig.write_file(os.path.join(root, "S.zip"), buf.getvalue())
    # the working directory holds same-named REAL objects
    cwd = os.path.join(base, "site")
    if cwdmode == "shadow":
        rig.build_tree(cwd, {"box": {"in": worlds.MBOX.replace(b"first", b"SHADOW")}, "m.mbox": worlds.MBOX.replace(b"first", b"SHADOW"), "md": {"cur": {"9:2,S": b"Subject: SHADOW\n\nx\n"}, "new": {}, "tmp": {}},
                             "s.sh": ("exec", b"#!/bin/sh\necho SHADOW-RAN\n"), "p.pyg": ("exec", worlds.PYG)})
    w = rig.World(handlers=order, root=root, cachetime=0, tag="c16sw", handlers_DOT_ZIP_DOT_ZIPHandler__enabled="true")
    bad = []
    n = 0
    old = os.getcwd()
    os.chdir(cwd)
    try:
        want = {"/S.zip/m.mbox": worlds.MBOX, "/S.zip/s.sh": script, "/S.zip/p.pyg": pyg, "/S.zip/plain.txt": b"plain\n", "/S.zip/md/cur/1:2,S": worlds.MAIL1}
        for sel, data in want.items():
            for form in ("gopher", "http", "gemini"):
                monitor.start()
                r = w.serve(*rig.request(form, sel))
                ev = monitor.stop()
                n += 1
                body = r.out
                if form == "http":
                    try:
                        body = parsers.split_http(r.out)[2]
                    except ValueError:
                        pass
                elif form == "gemini":
                    body = r.out.split(b"\r\n", 1)[1] if b"\r\n" in r.out else b""
                if r.internal_error:
                    bad.append((form, sel, "error", r.describe_error()))
                elif body != data:
                    bad.append((form, sel, "not-served-as-file", "member %s via %s is answered %r instead of its bytes" % (sel, form, r.out[:120])))
                execs = [e for e in ev if e[0] == "exec"]
                if execs:
                    bad.append((form, sel, "process-launched", "serving member %s launched %r" % (sel, execs[:2])))
                outs = [e for e in ev if e[0] in ("open", "open-w", "os.listdir", "os.scandir", "os.mkdir") and e[1] is not None
                        and monitor.reached(e[1], cwd).startswith(os.path.realpath(cwd) + "/") and not monitor.reached(e[1], cwd).startswith(os.path.realpath(root))]
                if outs:
                    bad.append((form, sel, "outside-root", "serving member %s touched %r" % (sel, outs[:2])))
        # message selectors into mailbox-shaped members: no such thing inside an archive
        for sel in ("/S.zip/box/in|/MBOX-MESSAGE/1", "/S.zip/m.mbox|/MBOX-MESSAGE/1", "/S.zip/md|/MAILDIR-MESSAGE/cur/1:2,S", "/S.zip/md|/MAILDIR-MESSAGE/cur/9:2,S", "/m.mbox|/MBOX-MESSAGE/1", "/md|/MAILDIR-MESSAGE/cur/9:2,S"):
            for form in ("gopher", "http", "gemini"):
                monitor.start()
                r = w.serve(*rig.request(form, sel))
                ev = monitor.stop()
                n += 1
                if r.internal_error:
                    bad.append((form, sel, "error", r.describe_error()))
                fam = form
                if parsers.classify(fam, r.out)[0] != "notfound":
                    bad.append((form, sel, "message-served", "message selector %s via %s is answered %r" % (sel, form, r.out[:120])))
                outs = [e for e in ev if e[0] in ("open", "open-w", "os.listdir", "os.scandir", "os.mkdir") and e[1] is not None
                        and monitor.reached(e[1], cwd).startswith(os.path.realpath(cwd) + "/") and not monitor.reached(e[1], cwd).startswith(os.path.realpath(root))]
                if outs:
                    bad.append((form, sel, "outside-root", "message selector %s touched %r" % (sel, outs[:2])))
        for form in ("gopher", "http", "gemini"):
            r = w.serve(*rig.request(form, "/S.zip/md"))
            n += 1
            names = b" ".join([b"cur", b"new", b"tmp"])
            if r.internal_error or not all(x in r.out for x in (b"cur", b"new", b"tmp")) or b"SHADOW" in r.out or b"maildir message" in r.out:
                bad.append((form, "/S.zip/md", "not-a-plain-directory", "Maildir-shaped member directory via %s is answered %r (%s)" % (form, r.out[:160], r.describe_error())))
        if os.path.exists(canary):
            bad.append(("-", "-", "code-executed", "a script/PYG member was executed (canary file written)"))
            os.unlink(canary)
        # nothing appeared in the working directory
        left = sorted(os.listdir(cwd))
        allowed = {"root"} | ({"box", "m.mbox", "md", "s.sh", "p.pyg"} if cwdmode == "shadow" else set())
        if set(left) - allowed:
            bad.append(("-", "-", "created-in-cwd", "the working directory gained %r" % sorted(set(left) - allowed)))
    finally:
        os.chdir(old)
        w.destroy()
        rig.rmtree(base)
    return bad, n


def check_escapes():
    """Links that point out of the archive are absent and nothing outside is read."""
    entries = [("file", "f.txt", b"file f\n"), ("file", "sub/g.txt", b"g\n")] + ESCAPES
    w = rig.World({"outside.txt": b"OUTSIDE THE ARCHIVE\n"}, handlers="full", cachetime=0, tag="c16e")
    bad = []
    n = 0
    try:
        rig.write_file(os.path.join(w.root, "tree.zip"), build_zip(entries))
        for sel in ("/tree.zip", "/tree.zip/sub", "/tree.zip/sub/esc.txt", "/tree.zip/esc2.txt", "/tree.zip/absout.txt", "/tree.zip/sub/clamped.txt", "/tree.zip/empty-target"):
            for form in FORMS:
                r = w.serve(*rig.request(form, sel))
                n += 1
                if b"OUTSIDE THE ARCHIVE" in r.out:
                    bad.append((form, sel, "reads-outside-archive", "a link member leaving the archive was followed: %r" % r.out[:120]))
                if r.internal_error:
                    bad.append((form, sel, "error", r.describe_error()))
                if sel in ("/tree.zip", "/tree.zip/sub") and form != "gopherp_info" and not r.internal_error and (b"f.txt" if sel == "/tree.zip" else b"g.txt") not in r.out:
                    bad.append((form, sel, "archive-unusable", "an archive with link members that lead nowhere no longer lists its good members: %r" % r.out[:200]))
                if sel in ("/tree.zip", "/tree.zip/sub") and any(x in r.out for x in (b"esc.txt", b"esc2.txt", b"absout.txt", b"clamped.txt", b"empty-target")):
                    bad.append((form, sel, "escaping-link-listed", "a link member leaving the archive is listed: %r" % r.out[:200]))
    finally:
        w.destroy()
    return bad, n


def _shard(shard, seed, tier):
    part = core.Partial()
    for item in shard:
        if item[0] == "archive":
            bad, n = check_archive(item[1])
            label = "archive|" + "+".join(item[1])
            case = {"kind": "archive", "kinds": list(item[1])}
        elif item[0] == "special":
            bad, n = check_special(item[1])
            label = "special|" + item[1]
            case = {"kind": "special", "cwd": item[1]}
        else:
            bad, n = check_escapes()
            label = "escapes"
            case = {"kind": "escapes"}
        part.evaluations += n
        part.transitions += n
        part.state(label)
        part.outcome(item[0], tuple(sorted(set(b[2] for b in bad))), len(item[1]) if item[0] == "archive" else 0, item[1][0] if item[0] == "archive" else "")
        part.sample({"case": label, "requests": n}, limit=2)
        seen = set()
        for form, s, cls, det in bad:
            k = "%s|%s|%s|%s" % (label, form, s, cls)
            if k in seen:
                continue
            seen.add(k)
            part.violation(k, det, case)
    return part


def replay(case):
    if case["kind"] == "archive":
        bad, _ = check_archive(case["kinds"])
    elif case["kind"] == "special":
        bad, _ = check_special(case["cwd"])
    else:
        bad, _ = check_escapes()
    return (bad[0][2], bad[0][3]) if bad else None


def run(ck):
    k = 3 if ck.tier == "quick" else 4
    items = []
    # kinds that put something on the same entries (f.txt and the listing of the top directory) can interact;
    # the quick tier takes triples among those only, the thorough tier all triples
    cluster = {k2 for k2, es in KINDS.items() if any(e[1] in ("f.txt", ".names", ".links", ".cap/f.txt", "f.txt.abstract") or (e[0] == "link" and "/" not in e[1]) for e in es)}
    for n in range(1, k + 1):
        for kinds in itertools.combinations(sorted(KINDS), n):
            if n == 4 and not (kinds[0] in ("abstract", "cap", "cycle")):
                continue
            if n == 3 and ck.tier == "quick" and not all(x in cluster for x in kinds):
                continue
            items.append(("archive", kinds))
    items += [("special", "plain"), ("special", "shadow"), ("special", "plain+zipfirst"), ("special", "shadow+zipfirst"), ("escapes", "-")]
    if ck.seed:
        import random

        random.Random(ck.seed).shuffle(items)
    ck.pmap(_shard, core.chunks(items, core.NPROC * 4))
    ck.rule = ("archives = every subset of <= %d of %d member kinds (quick: pairs of all kinds, triples among the kinds that decorate the same entries), built as /T (extracted) and /T.zip; every member path, every directory, link-through paths and 3 missing names x %d protocol forms on both, compared after removing the '.zip' prefix and timestamps; "
               "plus archives with mailbox/Maildir/script/PYG-shaped members (with and without same-named real objects in the working directory) and links leaving the archive; distinct = (kind, verdict, size, first member kind)" % (k, len(KINDS), len(FORMS)))
    ck.bounds = {"subset_size": k, "member_kinds": len(KINDS)}
    ck.assumptions = ["an absolute link target inside an archive is relative to the archive root (that is how the extracted twin is built)",
                      "timestamps (Last-Modified, Mod-Date) are removed before comparing; archive members all carry one fixed date"]

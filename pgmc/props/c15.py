"""C15 — Gopher+ item information is faithful.

E1: items (text file, HTML with title, compressed file, directory, mailbox
folder, mailbox message, ZIP member, ZIP directory) x all 16 subsets of the
sidecar files (.abstract .keywords .ask .3d) x sidecar contents (all sequences
of <= 3 lines over a 9-line alphabet with a non-empty last line), requested as
`!` on the item, `$` on its parent and `+`.  Oracle: an independent block
parser; +INFO == the item's plain Gopher menu line in its parent; +ADMIN
present; +VIEWS names the reference MIME type and size // 1024; exactly one
block per existing sidecar whose lines are the file's right-stripped lines; a
`+` document carries its exact length or the unknown-length marker.
"""
from __future__ import annotations

import itertools
import os
import re

from .. import core, parsers, rig, worlds
from .c04 import expected_type

ID = "C15"

EXTS = [(".abstract", b"ABSTRACT"), (".keywords", b"KEYWORDS"), (".ask", b"ASK"), (".3d", b"3D")]
LINES = [b"x", b"two words", b"+ADMIN:", b"+INFO: 0fake\t/fake\thost\t70", b" lead", b"trail  ", b"", b"\xc3\xa9", b"<&>", b"caf\xe9 latin-1"]

ITEMS = {
    # name -> (parent selector, selector, sidecar base path relative to root, kind)
    "text": ("/t", "/t/a.txt", "t/a.txt", "file"),
    "html": ("/t", "/t/b.html", "t/b.html", "file"),
    "gz": ("/t", "/t/c.txt.gz", "t/c.txt.gz", "file"),
    # sizes at the limits: nothing at all, one byte short of a kilobyte, exactly one
    "empty": ("/t", "/t/e0.txt", "t/e0.txt", "file"),
    "k1023": ("/t", "/t/e1023.txt", "t/e1023.txt", "file"),
    "k1024": ("/t", "/t/e1024.txt", "t/e1024.txt", "file"),
    "dir": ("/t", "/t/sub", "t/sub/", "dir"),
    "mbox": ("/t", "/t/m.mbox", None, "virtual"),
    "message": ("/t/m.mbox", "/t/m.mbox|/MBOX-MESSAGE/1", None, "virtual"),
    "zipmember": ("/t/z.zip", "/t/z.zip/m.txt", None, "zip"),
    "zipdir": ("/t/z.zip", "/t/z.zip/zd", None, "zip"),
    # documents produced on the fly (full handler list): their length is not the length of any file
    "script": ("/t", "/t/run.sh", None, "virtual"),
    "pyg": ("/t", "/t/gen.pyg", None, "virtual"),
}
FILE_BYTES = {"t/a.txt": b"A" * 2500, "t/b.html": worlds.HTML, "t/c.txt.gz": worlds.gz(b"zzz\n" * 1000),
              "t/e0.txt": b"", "t/e1023.txt": b"k" * 1023, "t/e1024.txt": b"k" * 1024}


def contents(maxlines):
    # the empty file, and files that hold nothing but line ends, first
    out = [(), (6,), (6, 6)]
    for n in range(1, maxlines + 1):
        for combo in itertools.product(range(len(LINES)), repeat=n):
            if LINES[combo[-1]].strip() == b"":
                continue
            out.append(combo)
    return out


def sidecar_bytes(combo, crlf=False):
    nl = b"\r\n" if crlf else b"\n"
    if not combo:
        return b""
    return nl.join(LINES[i] for i in combo) + nl


DECOR_NAMES = (b"Path=./a.txt\nName=Decorated A\nNumb=3\n\nPath=./b.html\nName=Decorated B\n\nPath=./sub\nName=Decorated Sub\nNumb=-1\n\n"
               b"Path=./c.txt.gz\nAbstract=abstract from the link file\n")


def build(item, sidecars, handlers, decorated=False):
    """sidecars: {ext: bytes}"""
    spec = {"t": {"a.txt": FILE_BYTES["t/a.txt"], "b.html": FILE_BYTES["t/b.html"], "c.txt.gz": FILE_BYTES["t/c.txt.gz"], "e0.txt": b"", "e1023.txt": FILE_BYTES["t/e1023.txt"], "e1024.txt": FILE_BYTES["t/e1024.txt"], "sub": {"inner.txt": b"i\n"}, "m.mbox": worlds.MBOX,
                  "run.sh": ("exec", b"#!/bin/sh\n# a script whose source is much longer than what it prints ........................................\necho short output\n"),
                  "gen.pyg": ("exec", worlds.PYG)}}
    zmembers = [("m.txt", b"member bytes\n" * 100), ("zd/e.txt", b"e\n")]
    parent, sel, base, kind = ITEMS[item]
    if kind == "zip":
        zbase = "m.txt" if item == "zipmember" else "zd/"
        for ext, data in sidecars.items():
            zmembers.append((zbase + ext, data))
    spec["t"]["z.zip"] = worlds.make_zip(zmembers)
    if decorated:
        # the item is also decorated by UMN metadata: its sidecar blocks must survive the merge
        spec["t"][".names"] = DECOR_NAMES
        spec["t"][".cap"] = {"a.txt": b"Numb=2\n"}
    w = rig.World(spec, handlers=handlers, cachetime=0, tag="c15")
    if kind in ("file", "dir"):
        for ext, data in sidecars.items():
            rig.write_file(os.path.join(w.root, base + ext) if not base.endswith("/") else os.path.join(w.root, base, ext), data)
    return w


def expected_blocks(item, sidecars, handlers, decorated=False):
    """-> {blockname: [lines]} for the sidecars that exist and apply"""
    parent, sel, base, kind = ITEMS[item]
    if kind == "virtual":
        return {}
    out = {}
    for ext, name in EXTS:
        if ext in sidecars:
            text = sidecars[ext].decode("utf-8", "surrogateescape")
            lines = [l.rstrip().encode("utf-8", "surrogateescape") for l in text.split("\n")]
            if lines and lines[-1] == b"":
                lines.pop()
            out[name] = lines
    if decorated and item == "gz":
        out[b"ABSTRACT"] = [b"abstract from the link file"]
    return out


def judge_item(w, item, sidecars, handlers, decorated=False):
    parent, sel, base, kind = ITEMS[item]
    bad = []
    # the item's plain Gopher menu line in its parent
    r = w.serve(*rig.request("gopher", parent))
    menu_line = None
    for ln in parsers.split_crlf_lines(r.out):
        m = parsers.GOPHER_LINE.match(ln)
        if m and m.group(3) == sel.encode():
            menu_line = ln
            break
    if menu_line is None:
        return [("setup", "item %s not found in the plain listing of %s: %r" % (sel, parent, r.out[:200]))]
    want_blocks = expected_blocks(item, sidecars, handlers, decorated)
    views = {}
    for form in (("gopherp_dir",) if decorated else ("gopherp_info", "gopherp_dir")):
        target = sel if form == "gopherp_info" else parent
        r = w.serve(*rig.request(form, target))
        if r.internal_error:
            bad.append((form, "error", r.describe_error()))
            continue
        m = parsers.GP_STATUS.match(r.out)
        if not m or m.group(1) != b"+":
            bad.append((form, "status", "reply %r" % r.out[:80]))
            continue
        try:
            items = parsers.parse_gopherp_blocks(r.out[m.end():])
        except ValueError as e:
            bad.append((form, "block-structure", str(e)))
            continue
        mine = None
        for it in items:
            if it[0][1].lstrip(b" ") + b"\r\n" == menu_line:
                mine = it
                break
        if form == "gopherp_info":
            if len(items) != 1:
                bad.append((form, "item-count", "! returned %d items" % len(items)))
            mine = items[0] if items else None
            if mine is not None:
                # requested on its own the item has no directory metadata (UMN extension stripping, .names, .cap),
                # so its display name may be the bare file name / own title; every other field must be identical
                a = parsers.GOPHER_LINE.match(mine[0][1].lstrip(b" ") + b"\r\n")
                b = parsers.GOPHER_LINE.match(menu_line)
                if not a:
                    bad.append((form, "info-line", "+INFO %r is not a Gopher menu line" % (mine[0][1],)))
                else:
                    fa = (a.group(1), a.group(3), a.group(4), a.group(5), a.group(6))
                    fb = (b.group(1), b.group(3), b.group(4), b.group(5), b.group(6))
                    own_names = {b.group(2), sel.rsplit("/", 1)[1].encode(), b"An HTML Title", b"first message"}
                    if fa != fb or a.group(2) not in own_names:
                        bad.append((form, "info-line", "+INFO is %r, the plain Gopher menu line is %r" % (mine[0][1], menu_line)))
        if mine is None:
            bad.append((form, "info-line", "no item of the $ listing has +INFO equal to the menu line %r" % menu_line))
            continue
        names = [b[0] for b in mine]
        if names.count(b"ADMIN") != 1:
            bad.append((form, "admin", "blocks %r: +ADMIN must appear once" % names))
        if names.count(b"VIEWS") != 1:
            bad.append((form, "views", "blocks %r: +VIEWS must appear once" % names))
        else:
            v = [b for b in mine if b[0] == b"VIEWS"][0]
            vline = v[2][0] if v[2] else b""
            if kind == "file" or item == "zipmember":
                fname = sel.rsplit("/", 1)[1].encode()
                etype, dec = expected_type(fname, handlers)
                size = len(FILE_BYTES[base]) if kind == "file" else len(b"member bytes\n" * 100)
                want = ("%s: <%dk>" % (etype, size // 1024)).encode()
                if dec:
                    want_alt = ("%s:" % etype).encode()  # decompressed on the fly: size unknown
                    if vline not in (want, want_alt):
                        bad.append((form, "views", "+VIEWS line %r, expected %r" % (vline, want_alt)))
                elif vline != want:
                    bad.append((form, "views", "+VIEWS line %r, expected %r" % (vline, want)))
            elif kind == "dir" or item == "zipdir":
                if not re.match(rb"^application/gopher\+?-menu:( <0k>)?$", vline):
                    bad.append((form, "views", "+VIEWS line of a directory is %r" % vline))
        got_blocks = {b[0]: b[2] for b in mine if b[0] not in (b"INFO", b"ADMIN", b"VIEWS")}
        extra = [n for n in names if n not in (b"INFO", b"ADMIN", b"VIEWS")]
        if len(extra) != len(set(extra)):
            bad.append((form, "duplicate-block", "blocks %r" % names))
        # a sidecar holding nothing printable (empty, or line ends only) says nothing: its block may be absent or hold
        # blank lines; every other block, and the rest of the listing, must be there all the same
        want_here = dict(want_blocks)
        for bn in [b for b, ls in want_blocks.items() if not any(l.strip() for l in ls)]:
            if bn in got_blocks and any(l.strip() for l in got_blocks[bn]):
                bad.append((form, "sidecar-blocks", "the sidecar for %r holds no text but the block carries %r" % (bn, got_blocks[bn])))
            got_blocks.pop(bn, None)
            want_here.pop(bn, None)
        if got_blocks != want_here:
            bad.append((form, "sidecar-blocks", "sidecar blocks %r, the sidecar files say %r" % (got_blocks, want_here)))
        views[form] = mine
    # + form for documents
    if kind == "file" or item in ("zipmember", "message") or (item in ("script", "pyg") and handlers == "full"):
        r = w.serve(*rig.request("gopherp", sel))
        why = parsers.validate_gopherp(r.out)
        if r.internal_error or why:
            bad.append(("gopherp", "length", why or r.describe_error()))
    return bad


def _shard(shard, seed, tier):
    part = core.Partial()
    for handlers, item, combo_spec in shard:
        decorated = handlers.endswith("+decor")
        handlers = handlers.split("+")[0]
        sidecars = {ext: sidecar_bytes(c, crlf) for ext, c, crlf in combo_spec}
        w = build(item, sidecars, handlers, decorated)
        try:
            bad = judge_item(w, item, sidecars, handlers, decorated)
        finally:
            w.destroy()
        part.evaluations += 3
        part.transitions += 4
        part.state(handlers, item, combo_spec)
        part.outcome(handlers, item, tuple(sorted(e for e, _, _ in combo_spec)), tuple(sorted(set(b[1] for b in bad))))
        part.sample({"item": item, "handlers": handlers, "sidecars": {e: sidecar_bytes(c, cr) for e, c, cr in combo_spec}}, limit=2)
        seen = set()
        for form, cls, det in [b if len(b) == 3 else ("-",) + b for b in bad]:
            k = "%s%s|%s|%s|%s|%s" % (handlers, "+decor" if decorated else "", item, ";".join("%s=%s%s" % (e, ",".join(map(str, c)), "r" if cr else "") for e, c, cr in combo_spec), form, cls)
            if k in seen:
                continue
            seen.add(k)
            part.violation(k, det, {"handlers": handlers + ("+decor" if decorated else ""), "item": item, "spec": [[e, list(c), cr] for e, c, cr in combo_spec]})
    return part


def replay(case):
    spec = tuple((e, tuple(c), cr) for e, c, cr in case["spec"])
    p = _shard([(case["handlers"], case["item"], spec)], 0, "quick")
    return (p.violations[0][0], p.violations[0][1]) if p.violations else None


def run(ck):
    items = []
    one = contents(1)
    allc = contents(3 if ck.tier == "thorough" else 2) if ck.tier == "quick" else contents(3)
    if ck.tier == "quick":
        allc = contents(2) + [c for c in contents(3) if len(c) == 3 and (c[0] in (2, 3, 6) or c[1] in (2, 6))]
    for handlers in ("full", "default"):
        for item in ITEMS:
            if handlers == "default" and (ITEMS[item][3] == "zip" or item in ("script", "pyg")):
                continue
            # every subset of sidecars, fixed content
            for k in range(0, 5):
                for exts in itertools.combinations([e for e, _ in EXTS], k):
                    items.append((handlers, item, tuple((e, (0, 1), False) for e in exts)))
            if ITEMS[item][3] == "virtual" or item in ("empty", "k1023", "k1024"):
                continue
            # one sidecar at a time, every content
            if handlers == "full" or item in ("text", "dir"):
                for ext, _ in EXTS:
                    for c in (allc if item in ("text", "dir", "zipmember") else one):
                        items.append((handlers, item, ((ext, c, False),)))
                    for c in one:
                        items.append((handlers, item, ((ext, c, True),)))
            # pairs of sidecars with one-line contents
            if handlers == "full" and item in ("text", "dir"):
                for (e1, _), (e2, _) in itertools.combinations(EXTS, 2):
                    for c1 in one:
                        for c2 in one:
                            items.append((handlers, item, ((e1, c1, False), (e2, c2, False))))
    # items that are also decorated by .names / .cap blocks: every subset of sidecars
    for item in ("text", "html", "gz", "dir"):
        for k in range(0, 5):
            for exts in itertools.combinations([e for e, _ in EXTS], k):
                if item == "gz" and ".abstract" in exts:
                    continue  # the link file's Abstract= and the sidecar compete for the same block
                items.append(("full+decor", item, tuple((e, (0, 1), False) for e in exts)))
    items = list(dict.fromkeys(items))
    if ck.seed:
        import random

        random.Random(ck.seed).shuffle(items)
    ck.pmap(_shard, core.chunks(items, core.NPROC * 4))
    ck.rule = ("items %s x {all 16 subsets of the four sidecar files; each sidecar alone with every content of <= 3 lines (quick: <= 2 plus the 3-line ones containing a '+' line or an empty line) over %d line shapes, LF and CRLF; pairs of sidecars with one-line contents} "
               "x forms {! on the item, $ on the parent, + for documents} x handler lists; distinct = (handler list, item, sidecar set, verdict)" % (sorted(ITEMS), len(LINES)))
    ck.bounds = {"items": len(ITEMS), "cases": len(items)}
    ck.assumptions = ["sidecar lines are compared right-stripped and trailing blank lines are not generated (the design's stated equivalence)",
                      "mailbox folders and messages have no sidecars; a decompressed-on-the-fly document may omit its size"]

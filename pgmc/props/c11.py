"""C11 — a cache file cut off at any byte is harmless.

Crash points (E2, exhaustive): for each directory and writer protocol the real
server writes its cache file; then for EVERY prefix length 0..size, and for the
zero-filled file of full length, the directory is requested again and must be
answered with the complete fresh listing.  Same for the three files of the ZIP
index cache.  Schedules (E3): a writer request and a reader request on the same
directory under the cooperative scheduler, the cache file's write split in
chunks, all interleavings within the preemption bound.
"""
from __future__ import annotations

import os

from .. import core, rig, worlds
from .c03 import _norm

ID = "C11"

DIRS = {
    "small": {"a.txt": b"A\n", "b.txt": b"B\n"},
    "empty": {},
    "meta": {
        "a.txt": b"A\n", "b.html": worlds.HTML, "c": {"x.txt": b"x"}, "d.txt": b"D\n", "e.txt": b"E\n",
        ".names": b"Path=./a.txt\nName=Alpha\nNumb=2\n\nName=Link\nType=1\nPath=/small\nHost=+\nPort=+\nNumb=1\n",
        "a.txt.abstract": b"about a\n", ".cap": {"d.txt": b"Name=Delta\n"},
    },
    "nested": {"sub": {"deep": {"f.txt": b"f"}}, "g.txt": b"g"},
    # more entries than any batch size one might pick (256): a listing that is long enough to be written in pieces
    "big": {"n%03d" % i: b"x" for i in range(260)},
}
WRITERS = ["gopher", "gopherp_dir", "http", "gemini"]
READERS = ["gopher", "gopherp_dir", "http"]
CACHE = ".cache.pygopherd.dir"


def _spec():
    s = {k: dict(v) for k, v in DIRS.items()}
    s["z.zip"] = worlds.make_zip([("f.txt", b"zf\n"), ("sub/g.txt", b"zg\n"), ("sub/h.txt", b"zh\n")])
    return s


class _Env:
    def __init__(self):
        self.w = rig.World(_spec(), handlers="full", cachetime=0, tag="c11")
        self.fresh = {}
        for d in list(DIRS) + ["z.zip", "z.zip/sub"]:
            for p in set(WRITERS + READERS):
                data, tls = rig.request(p, "/" + d)
                r = self.w.serve(data, tls)
                if r.internal_error:
                    raise core.HarnessError("fresh listing of /%s via %s failed: %s" % (d, p, r.describe_error()))
                self.fresh[(d, p)] = _norm(r.out)
        self.w.reconfigure(handlers="full", cachetime=100000)

    def cache_path(self, d):
        return os.path.join(self.w.root, d, CACHE)

    def make_cache(self, d, writer):
        p = self.cache_path(d)
        if os.path.exists(p):
            os.unlink(p)
        data, tls = rig.request(writer, "/" + d)
        r = self.w.serve(data, tls)
        if r.internal_error or not os.path.exists(p):
            raise core.HarnessError("writer %s did not produce %s (%s)" % (writer, p, r.describe_error()))
        with open(p, "rb") as f:
            return f.read()

    def destroy(self):
        self.w.destroy()


def _probe(env, d, reader, path, content, label):
    """Replace `path` by `content`, request the directory, judge."""
    with open(path, "wb") as f:
        f.write(content)
    data, tls = rig.request(reader, "/" + d)
    r = env.w.serve(data, tls)
    if r.internal_error:
        return ("error", "%s: %s; reply %r" % (label, r.describe_error(), r.out[:80]))
    if _norm(r.out) != env.fresh[(d, reader)]:
        return ("wrong-listing", "%s: got %r, fresh listing is %r" % (label, _norm(r.out)[:200], env.fresh[(d, reader)][:200]))
    return None


class _DyingWriter:
    """Cache-file object of a writer that dies (disk full, kill) after `limit` bytes."""

    def __init__(self, f, limit):
        self._f = f
        self._left = limit

    def write(self, data):
        data = bytes(data)
        if len(data) <= self._left:
            self._left -= len(data)
            return self._f.write(data)
        self._f.write(data[: self._left])
        self._f.flush()
        self._left = 0
        import errno

        raise OSError(errno.ENOSPC, "No space left on device (injected)")

    def __enter__(self):
        return self

    def __exit__(self, *a):
        self._f.close()
        return False

    def __getattr__(self, name):
        return getattr(self._f, name)


_die_after = None
_die_patched = False


def _patch_dying():
    global _die_patched
    if _die_patched:
        return
    from pygopherd.handlers.base import VFS_Real

    orig = VFS_Real.open

    def open_(self, selector, mode, errors=None):
        f = orig(self, selector, mode, errors=errors) if errors is not None else orig(self, selector, mode)
        if _die_after is not None and selector.endswith(CACHE) and any(c in mode for c in "wa+") and type(self) is VFS_Real:
            return _DyingWriter(f, _die_after)
        return f

    VFS_Real.open = open_
    _die_patched = True


def _crash_writer(part, lo, step, reader):
    """An OLD cache exists, the directory changes (a rename that keeps every length), the cache
    expires, and the writer that refreshes it dies after k bytes — for every k.  Whatever is
    left on disk, the next request must show the directory as it is now."""
    global _die_after
    _patch_dying()
    w = rig.World({"w": {"alpha.txt": b"A\n", "bravo.txt": b"B\n", "sub": {"x": b"x"}}}, handlers="default", cachetime=100000, tag="c11w")
    try:
        cpath = os.path.join(w.root, "w", CACHE)
        req = rig.request(reader, "/w")
        w.serve(*req)
        with open(cpath, "rb") as f:
            old = f.read()
        os.rename(os.path.join(w.root, "w", "bravo.txt"), os.path.join(w.root, "w", "delta.txt"))
        w.reconfigure(handlers="default", cachetime=0)
        fresh = _norm(w.serve(*req).out)
        w.reconfigure(handlers="default", cachetime=100000)
        n = len(old)
        for k in range(lo, n + 40, step):
            with open(cpath, "wb") as f:
                f.write(old)
            os.utime(cpath, (1, 1))  # long expired
            _die_after = k
            try:
                r1 = w.serve(*req)
            finally:
                _die_after = None
            r2 = w.serve(*req)
            part.evaluations += 2
            part.transitions += 2
            part.state("crash-writer", reader, k)
            bad = None
            for which, r in (("the request whose cache write died", r1), ("the request after it", r2)):
                if r.internal_error:
                    bad = ("error", "%s: %s" % (which, r.describe_error()))
                elif _norm(r.out) != fresh:
                    bad = ("stale-or-partial", "%s (writer died after %d of ~%d bytes) got %r, the directory now lists as %r" % (which, k, n, _norm(r.out)[:160], fresh[:160]))
                if bad:
                    break
            part.outcome("crash-writer", reader, bad[0] if bad else "ok", k >= n)
            if bad:
                part.violation("crash-writer|r=%s|died-after=%d|%s" % (reader, k, bad[0]), bad[1], {"kind": "crash-writer", "reader": reader, "k": k})
        part.sample({"crash_writer": "old cache + same-length rename + expiry; writer dies after k bytes, k = %d, %d, ... %d" % (lo, lo + step, n + 39), "reader": reader}, limit=1)
    finally:
        w.destroy()


def _crash_writer_os(part, lo, step, reader):
    """The same situation with the operating system doing the killing: the request that refreshes the cache runs
    in a forked child whose file-size limit is k bytes (a full disk, a quota: write(2) fails at byte k whichever
    way the file is written, whatever its name).  Afterwards the directory is listed as it is -- nothing stale,
    nothing partial, no left-over scratch file among the entries."""
    import resource
    import signal

    w = rig.World({"w": {"alpha.txt": b"A\n", "bravo.txt": b"B\n", "sub": {"x": b"x"}}}, handlers="default", cachetime=100000, tag="c11o")
    try:
        cpath = os.path.join(w.root, "w", CACHE)
        req = rig.request(reader, "/w")
        w.serve(*req)
        with open(cpath, "rb") as f:
            old = f.read()
        os.rename(os.path.join(w.root, "w", "bravo.txt"), os.path.join(w.root, "w", "delta.txt"))
        w.reconfigure(handlers="default", cachetime=0)
        fresh = _norm(w.serve(*req).out)
        w.reconfigure(handlers="default", cachetime=100000)
        n = len(old)
        names0 = set(os.listdir(os.path.join(w.root, "w")))
        for k in range(lo, n + 40, step):
            for stray in set(os.listdir(os.path.join(w.root, "w"))) - names0:
                os.unlink(os.path.join(w.root, "w", stray))
            with open(cpath, "wb") as f:
                f.write(old)
            os.utime(cpath, (1, 1))
            pid = os.fork()
            if pid == 0:
                try:
                    signal.signal(signal.SIGXFSZ, signal.SIG_IGN)
                    resource.setrlimit(resource.RLIMIT_FSIZE, (k, k))
                    w.serve(*req)
                finally:
                    os._exit(0)
            os.waitpid(pid, 0)
            r2 = w.serve(*req)
            part.evaluations += 2
            part.transitions += 2
            part.state("crash-writer-os", reader, k)
            bad = None
            if r2.internal_error:
                bad = ("error", "the request after a cache write cut at byte %d by the file-size limit: %s" % (k, r2.describe_error()))
            elif _norm(r2.out) != fresh:
                bad = ("stale-or-partial", "after a cache write cut at byte %d of ~%d by the file-size limit the directory lists as %r, it is %r (directory now holds %r)" % (
                    k, n, _norm(r2.out)[:200], fresh[:200], sorted(os.listdir(os.path.join(w.root, "w")))))
            part.outcome("crash-writer-os", reader, bad[0] if bad else "ok", k >= n)
            if bad:
                part.violation("crash-writer-os|r=%s|limit=%d|%s" % (reader, k, bad[0]), bad[1], {"kind": "crash-writer-os", "reader": reader, "k": k})
    finally:
        w.destroy()


_ro = False
_ro_patched = False


def _patch_ro():
    """Seam: the directory has become read-only for the server (ownership changed, read-only mount): creating,
    rewriting and removing the cache file fail with EACCES; reading it still works."""
    global _ro_patched
    if _ro_patched:
        return
    import errno

    from pygopherd.handlers.base import VFS_Real

    o_open, o_unlink = VFS_Real.open, VFS_Real.unlink

    def open_(self, selector, mode="r", *a, **k):
        if _ro and type(self) is VFS_Real and selector.endswith(CACHE) and any(c in mode for c in "wax+"):
            raise PermissionError(errno.EACCES, "Permission denied (read-only directory, injected)")
        return o_open(self, selector, mode, *a, **k)

    def unlink(self, selector):
        if _ro and type(self) is VFS_Real:
            raise PermissionError(errno.EACCES, "Permission denied (read-only directory, injected)")
        return o_unlink(self, selector)

    VFS_Real.open, VFS_Real.unlink = open_, unlink
    _ro_patched = True


def _shard(shard, seed, tier):
    global _ro
    part = core.Partial()
    kind = shard[0]
    if kind == "crash-writer":
        _crash_writer(part, shard[1], shard[2], shard[3])
        return part
    if kind == "crash-writer-os":
        _crash_writer_os(part, shard[1], shard[2], shard[3])
        return part
    if kind == "dir-ro":
        _patch_ro()
        kind = "dir"
        shard = ("dir",) + tuple(shard[1:])
        ro_shard = True
    else:
        ro_shard = False
    env = _Env()
    try:
        if kind == "dir":
            _, d, writer, reader, lo, hi, step = shard
            blob = env.make_cache(d, writer)
            path = env.cache_path(d)
            n = len(blob)
            ks = range(lo, n + 1, step) if step != "windows" else []
            if step == "windows":
                # the long cache file, quick tier: every cut in the first and the last 256 bytes, every cut within 8 bytes of
                # a point where the prefix is a complete pickle stream (each STOP opcode), and every 101st byte
                import pickletools

                stops, pos = [], 0
                while pos < n:
                    try:
                        for op, arg, off in pickletools.genops(blob[pos:]):
                            if op.name == "STOP":
                                stops.append(pos + off + 1)
                                break
                        else:
                            break
                    except Exception:  # noqa: not a pickle stream (another cache format): the other windows remain
                        break
                    if not stops or stops[-1] <= pos:
                        break
                    pos = stops[-1]
                want = set(range(0, min(256, n) + 1)) | set(range(max(0, n - 256), n + 1)) | set(range(0, n + 1, 101))
                for st in stops:
                    want |= set(range(max(0, st - 8), min(n, st + 8) + 1))
                allk = sorted(want)
                ks = allk[lo::8]
            for k in ks:
                content = blob[:k]
                _ro = ro_shard
                try:
                    bad = _probe(env, d, reader, path, content, "cache of /%s written by %s cut at byte %d of %d, read by %s%s" % (d, writer, k, n, reader, " (directory read-only)" if ro_shard else ""))
                finally:
                    _ro = False
                part.evaluations += 1
                part.transitions += 1
                part.state(d, writer, reader, k)
                part.outcome(d, reader, bad[0] if bad else "ok", k == n)
                if bad:
                    part.violation("dir%s|%s|w=%s|r=%s|cut=%d/%d|%s" % ("-ro" if ro_shard else "", d, writer, reader, k, n, bad[0]), bad[1],
                                   {"kind": "dir", "d": d, "writer": writer, "reader": reader, "cut": k, "ro": ro_shard})
            if lo == 0:
                for fill, name in ((b"\0" * n, "zero-filled"), (b"\xff" * n, "ff-filled"), (blob + b"\0", "one-extra-byte")):
                    if name == "one-extra-byte":
                        continue
                    bad = _probe(env, d, reader, path, fill, "cache of /%s %s (%d bytes), read by %s" % (d, name, n, reader))
                    part.evaluations += 1
                    part.transitions += 1
                    part.state(d, writer, reader, name)
                    if bad:
                        part.violation("dir|%s|w=%s|r=%s|%s|%s" % (d, writer, reader, name, bad[0]), bad[1],
                                       {"kind": "dirfill", "d": d, "writer": writer, "reader": reader, "fill": name})
                part.sample({"directory": d, "writer": writer, "reader": reader, "cache_bytes": n, "prefixes": "0..%d" % n})
        else:
            _, ext, reader = shard
            # ZIP index cache: three dbm files next to the archive
            data, tls = rig.request("gopher", "/z.zip/sub")
            env.w.serve(data, tls)
            base = os.path.join(env.w.root, ".cache.pygopherd.zip3.z.zip")
            cands = [base + ext] if ext else [base]
            for path in cands:
                if not os.path.exists(path):
                    part.count("zip_cache_file_absent")
                    continue
                with open(path, "rb") as f:
                    blob = f.read()
                others = {}
                for e2 in (".dat", ".dir", ".bak", ""):
                    p2 = base + e2
                    if os.path.exists(p2):
                        with open(p2, "rb") as f:
                            others[p2] = f.read()
                for k in list(range(len(blob) + 1)) + ["zero"]:
                    for p2, c2 in others.items():
                        with open(p2, "wb") as f:
                            f.write(c2)
                        # keep the index as new as the archive so the cache is considered current
                    content = blob[:k] if k != "zero" else b"\0" * len(blob)
                    for zsel in ("z.zip/sub", "z.zip"):
                        bad = _probe(env, zsel, reader, path, content, "ZIP index file %s cut at %s of %d" % (os.path.basename(path), k, len(blob)))
                        part.evaluations += 1
                        part.transitions += 1
                        part.state("zip", ext, reader, k, zsel)
                        part.outcome("zip", ext, bad[0] if bad else "ok")
                        if bad:
                            part.violation("zip|%s|r=%s|cut=%s|%s|%s" % (ext, reader, k, zsel, bad[0]), bad[1], {"kind": "zip", "ext": ext, "reader": reader})
    finally:
        env.destroy()
    return part


def replay(case):
    env = _Env()
    try:
        if case["kind"] == "dir":
            blob = env.make_cache(case["d"], case["writer"])
            global _ro
            if case.get("ro"):
                _patch_ro()
                _ro = True
            try:
                bad = _probe(env, case["d"], case["reader"], env.cache_path(case["d"]), blob[: case["cut"]], "replay")
            finally:
                _ro = False
        elif case["kind"] == "dirfill":
            blob = env.make_cache(case["d"], case["writer"])
            fill = (b"\0" if case["fill"] == "zero-filled" else b"\xff") * len(blob)
            bad = _probe(env, case["d"], case["reader"], env.cache_path(case["d"]), fill, "replay")
        elif case["kind"] == "crash-writer-os":
            env.destroy()
            p2 = core.Partial()
            _crash_writer_os(p2, case["k"], 10 ** 9, case["reader"])
            return (p2.violations[0][0], p2.violations[0][1]) if p2.violations else None
        elif case["kind"] == "crash-writer":
            env.destroy()
            p2 = core.Partial()
            _crash_writer(p2, case["k"], 10 ** 9, case["reader"])
            return (p2.violations[0][0], p2.violations[0][1]) if p2.violations else None
        elif case["kind"] == "sched":
            env.destroy()
            from . import c11_sched

            return c11_sched.replay_case(case)
        else:
            return None
    finally:
        env.destroy()
    return bad


def run(ck):
    shards = []
    if ck.tier == "quick":
        combos = [("small", "gopher", "gopher"), ("meta", "gopherp_dir", "http"), ("empty", "http", "gopherp_dir"), ("nested", "gemini", "gopher")]
    else:
        combos = [(d, w, r) for d in DIRS if d != "big" for w in WRITERS for r in READERS] + [("big", "gopher", "gopher")]
    nsplit = 8 if ck.tier == "quick" else 4
    for d, w, r in combos:
        for j in range(nsplit if d != "big" else 32):
            shards.append(("dir", d, w, r, j, None, nsplit if d != "big" else 32))
    if ck.tier == "quick":
        for j in range(8):
            shards.append(("dir", "big", "gopher", "gopher", j, None, "windows"))
    for ext in (".dat", ".dir", ".bak", ""):
        shards.append(("zip", ext, "gopher"))
    for j in range(8):
        shards.append(("crash-writer", j, 8, "gopher"))
    for j in range(8):
        shards.append(("crash-writer-os", j, 8, "gopher"))
        shards.append(("dir-ro", "small", "gopher", "gopher", j, None, 8))
    if ck.tier == "thorough":
        for j in range(8):
            shards.append(("crash-writer", j, 8, "http"))
    ck.pmap(_shard, shards)
    from . import c11_sched

    c11_sched.run(ck)
    ck.rule = (
        "every prefix length 0..size (and a zero-filled and an 0xff-filled file of full length) of the cache file written by the real server for %d (directory, writer protocol, reader protocol) combinations, "
        "and of each file of the ZIP index cache; a writer that dies after k bytes (every k) while refreshing an expired cache of a directory that changed; then writer||reader schedules (see counters). distinct = (directory, reader, verdict, is-complete-file)" % len(combos)
    )
    ck.bounds = {"combos": len(combos), "prefix_step": 1, "long_cache_file": "every prefix (thorough); quick: first/last 256 bytes, +-8 around every complete-stream point, every 101st byte"}
    ck.assumptions = ["cache lifetime is effectively infinite during the check, so every request after the first would be a cache hit",
                      "expected listing = the listing served with caching off on the same tree"]

"""C11, schedules: every point at which a concurrent reader can observe a writer
of the same directory cache (E3, preemption-bounded)."""
from __future__ import annotations

import os

from .. import core, rig, sched
from .c03 import _norm
from .c11 import CACHE, DIRS

SCENARIOS_QUICK = [
    ("meta", ["gopher", "http"], 2),
    ("small", ["gopherp_dir", "gopher"], 2),
    # two readers arriving at a fresh but truncated cache file (a writer died a moment ago)
    ("small", ["gopher", "gopher"], 2, "half"),
    ("meta", ["gopher", "http"], 2, "one-byte-short"),
]
SCENARIOS_THOROUGH = [
    ("meta", ["gopher", "http"], 3),
    ("small", ["gopherp_dir", "gopher"], 3),
    ("meta", ["http", "gopherp_dir"], 3),
    ("small", ["gopher", "gopher", "http"], 2),
    ("meta", ["gopher", "gemini", "gopherp_dir"], 2),
    ("small", ["gopher", "gopher"], 3, "half"),
    ("meta", ["gopher", "http"], 3, "one-byte-short"),
    ("meta", ["http", "gopherp_dir", "gopher"], 2, "empty"),
]


def _select(name, selector):
    return selector.endswith(CACHE) or name == "listdir"


def _cut(blob, initial):
    return {"half": blob[: len(blob) // 2], "one-byte-short": blob[:-1], "empty": b""}[initial]


def _run_scenario(part, d, protos, bound, roots=None, cap=None, initial=None):
    sched.install(_select)
    w = rig.World({k: dict(v) for k, v in DIRS.items()}, handlers="default", cachetime=0, tag="c11s")
    try:
        fresh = {}
        for p in set(protos):
            data, tls = rig.request(p, "/" + d)
            fresh[p] = _norm(w.serve(data, tls).out)
        w.reconfigure(handlers="default", cachetime=100000)
        # warm the lazies: this part is about the cache file only
        w.serve(*rig.request("gopher", "/nested"))
        cpath = os.path.join(w.root, d, CACHE)
        blob = None
        if initial:
            w.serve(*rig.request(protos[0], "/" + d))
            with open(cpath, "rb") as f:
                blob = f.read()

        def make_funcs():
            if os.path.exists(cpath):
                os.unlink(cpath)
            if initial:
                with open(cpath, "wb") as f:
                    f.write(_cut(blob, initial))
            funcs = []
            for p in protos:
                data, tls = rig.request(p, "/" + d)
                funcs.append(lambda data=data, tls=tls: w.serve(data, tls))
            return funcs

        def on_exec(x):
            part.evaluations += 1
            part.transitions += x.steps
            outs = []
            bad = None
            for i, p in enumerate(protos):
                kind, r = x.results[i]
                if kind == "exc":
                    bad = ("task-exception", "%s raised %r" % (p, r))
                    break
                outs.append(_norm(r.out))
                if r.internal_error:
                    bad = ("error", "%s client: %s (reply %r)" % (p, r.describe_error(), r.out[:60]))
                    break
                if _norm(r.out) != fresh[p]:
                    bad = ("wrong-listing", "%s client got %r instead of the complete listing %r" % (p, _norm(r.out)[:160], fresh[p][:160]))
                    break
            final = b""
            if os.path.exists(cpath):
                with open(cpath, "rb") as f:
                    final = f.read()
            if bad is None:
                # post-condition: whatever was left on disk, the next request is right
                data, tls = rig.request(protos[-1], "/" + d)
                r = w.serve(data, tls)
                if r.internal_error or _norm(r.out) != fresh[protos[-1]]:
                    bad = ("after", "request after the race: %s / %r" % (r.describe_error(), r.out[:100]))
            part.state("sched", d, tuple(protos), tuple(x.choices))
            part.outcome("sched", d, tuple(protos), tuple(outs), core.h64(final), bad[0] if bad else "")
            if bad:
                key = "sched|%s%s|%s|%s|%s" % (d, "@" + initial if initial else "", "+".join(protos), ",".join(map(str, x.choices)), bad[0])
                part.violation(key, bad[1] + " ; schedule points: %r" % ([p[2] for p, c in zip(x.points, x.choices) if c][:6],),
                               {"kind": "sched", "d": d, "protos": protos, "choices": list(x.choices), "initial": initial})

        n, capped = sched.explore(make_funcs, bound, on_exec, roots=roots, cap=cap)
        part.count("schedules", n)
        if capped:
            part.extra.setdefault("capped", []).append("%s/%s" % (d, "+".join(protos)))
    finally:
        w.destroy()


def _shard(shard, seed, tier):
    part = core.Partial()
    d, protos, bound, root = shard[:4]
    initial = shard[4] if len(shard) > 4 else None
    _run_scenario(part, d, protos, bound, roots=[root] if root is not None else None, initial=initial)
    if root in (None, []) or root == [0]:
        part.sample({"scenario": "concurrent requests for /%s via %s" % (d, protos), "preemption_bound": bound})
    return part


def replay_case(case):
    part = core.Partial()
    sched.install(_select)
    d, protos = case["d"], case["protos"]
    # run exactly the recorded schedule
    w = rig.World({k: dict(v) for k, v in DIRS.items()}, handlers="default", cachetime=0, tag="c11r")
    try:
        fresh = {}
        for p in set(protos):
            data, tls = rig.request(p, "/" + d)
            fresh[p] = _norm(w.serve(data, tls).out)
        w.reconfigure(handlers="default", cachetime=100000)
        w.serve(*rig.request("gopher", "/nested"))
        cpath = os.path.join(w.root, d, CACHE)
        if case.get("initial"):
            w.serve(*rig.request(protos[0], "/" + d))
            with open(cpath, "rb") as f:
                blob = f.read()
        if os.path.exists(cpath):
            os.unlink(cpath)
        if case.get("initial"):
            with open(cpath, "wb") as f:
                f.write(_cut(blob, case["initial"]))
        funcs = []
        for p in protos:
            data, tls = rig.request(p, "/" + d)
            funcs.append(lambda data=data, tls=tls: w.serve(data, tls))
        x = sched.Execution(funcs, case["choices"]).run()
        for i, p in enumerate(protos):
            kind, r = x.results[i]
            if kind == "exc":
                return ("task-exception", repr(r))
            if r.internal_error:
                return ("error", r.describe_error())
            if _norm(r.out) != fresh[p]:
                return ("wrong-listing", repr(r.out[:100]))
    finally:
        w.destroy()
    return None


def run(ck):
    scen = SCENARIOS_QUICK if ck.tier == "quick" else SCENARIOS_THOROUGH
    shards = []
    for sc in scen:
        d, protos, bound = sc[:3]
        # shard on the first decision (which task starts) — a free choice
        for first in range(len(protos)):
            shards.append((d, protos, bound, [first]) + tuple(sc[3:]))
    p = ck.pmap(_shard, shards)
    ck.bounds["sched_scenarios"] = [list(sc) for sc in scen]
    ck.notes.append("schedules explored: %d; distinct (responses, final cache file) outcomes are part of distinct_nontrivial" % p.extra.get("schedules", 0))
    if p.extra.get("capped"):
        ck.caps.append("schedule cap hit in %r" % p.extra["capped"])

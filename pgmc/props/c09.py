"""C09 — gophermap files are rendered line for line as documented.

E1: every gophermap of <= 3 lines over 14 line shapes (info text, blank line,
links with 1-4 fields, empty selector, absolute / relative / URL: selectors,
remote hosts, explicit type i, search) x line terminators x placements
(root, depth 1, depth 2, a *.gophermap file), rendered through every protocol.
Oracle: a reference reading of doc/pygopherd.txt and doc/standards/gophermap.txt
(one entry per line in file order) compared with the parsed Gopher menu, and the
other protocols' parsed listings compared with the Gopher one.
"""
from __future__ import annotations

import itertools
import os

from .. import core, parsers, rig
from .c06 import VIEWS, canon_entries, fetch_listing

ID = "C09"

SHAPES = [
    b"Just some text", b"", b"text  with   inner spaces", b"1src\t", b"0Rel file\trel.txt", b"1Abs\t/other/dir", b"hWeb\tURL:http://example.com/a?b=1&c",
    b"1Remote\t/x\tremote.example", b"0Remote port\t/y\tremote.example\t7070", b"1Home\t\tremote.example\t70", b"0Deep\tsub/deep.txt",
    b"0A & <b> \"q\" 'x'\tf&g.txt", b"iExplicit info\tfake\t(NULL)\t0", b"7Search\t/target.txt", b"0Trailing fields\t/t.txt\t\t", b"9No selector at all\t\t\t",
    # characters that are line boundaries for str.splitlines() but not for a text file: one line stays one entry
    b"0Form\x0cfeed and \x0bvt\tf&g.txt", b"info with NEL \xc2\x85 and LS \xe2\x80\xa8 inside",
    # URL: selectors whose scheme has no "//"
    b"hMail us\tURL:mailto:admin@example.com", b"hNews\t/URL:news:comp.infosystems.gopher",
    # a selector inside a real directory that is named like the WAP prefix; every field written out, with port 0 and a large port
    b"hBare URL\tURL:", b"hBare slash URL\t/URL:",
    b"0In the wap directory\t/wap/guide.txt", b"iFully spelled info\t/\t(NULL)\t0", b"1Big port\t/x\tremote.example\t65535", b"1Port one\t/x\tremote.example\t1",
    # this host, another port: the third field left empty, the fourth given
    b"1Other instance\t/archive\t\t7070",
]
PLACEMENTS = ["root", "d1", "d2", "file", "rootfile", "zip", "dirnamed"]


def reference(lines, dirsel: bytes):
    """Documented reading: -> list of (type, description, selector, host|None, port|None)"""
    out = []
    for ln in lines:
        if b"\t" not in ln:
            out.append((b"i", ln.strip(), None, None, None))
            continue
        f = [x.strip() for x in ln.split(b"\t")]
        typ, desc = f[0][:1], f[0][1:]
        sel = f[1] if len(f) > 1 and f[1] else desc
        if not sel.startswith(b"/") and not sel.startswith(b"URL:"):
            sel = dirsel + b"/" + sel
        host = f[2] if len(f) > 2 and f[2] else None
        port = int(f[3]) if len(f) > 3 and f[3] else None
        out.append((typ, desc, sel, host, port))
    return out


def expected_menu(ref):
    """Reference entries -> canonical (info, name, target) sequence as the listing parsers produce it."""
    me = rig.SERVER_NAME.encode()
    out = []
    for typ, desc, sel, host, port in ref:
        if typ == b"i":
            out.append(("i", desc, ("none",)))
            continue
        h = host if host is not None else me
        p = port if port is not None else rig.SERVER_PORT
        out.append(("l", desc, parsers._gopher_target(typ, sel, h, p)))
    return out


def body_of(lines, term):
    body = b""
    for i, ln in enumerate(lines):
        body += ln
        if term == "lf":
            body += b"\n"
        elif term == "crlf":
            body += b"\r\n"
        elif term == "nolast":
            body += b"\n" if i < len(lines) - 1 else b""
    return body


COMMON = {b"rel.txt": b"r\n", b"sub": {b"deep.txt": b"d\n"}, b"f&g.txt": b"fg\n"}
# placement -> (tree around the gophermap, path of the gophermap file, directory selector, request selector)
LAYOUT = {
    "root": (dict(COMMON), b"gophermap", b"", b"/"),
    "d1": ({b"d1": dict(COMMON)}, b"d1/gophermap", b"/d1", b"/d1"),
    "d2": ({b"d1": {b"d 2": dict(COMMON)}}, b"d1/d 2/gophermap", b"/d1/d 2", b"/d1/d 2"),
    "file": ({b"maps": dict(COMMON)}, b"maps/x.gophermap", b"/maps", b"/maps/x.gophermap"),
    "rootfile": (dict(COMMON), b"x.gophermap", b"", b"/x.gophermap"),
    # a DIRECTORY whose own name ends in .gophermap, holding an ordinary gophermap
    "dirnamed": ({b"old.gophermap": dict(COMMON)}, b"old.gophermap/gophermap", b"/old.gophermap", b"/old.gophermap"),
}
_worlds = {}


def world_for(placement):
    """ONE long-lived world per placement: the gophermap is rewritten IN PLACE between cases, with every
    timestamp pinned, so anything the server remembers about an earlier gophermap shows.  Before the first
    gophermap is written the directory is requested WITHOUT one (it is an ordinary directory then)."""
    w = _worlds.get(placement)
    if w is None:
        if placement == "zip":
            w = rig.World({}, handlers="full", cachetime=0, tag="c09")
        else:
            w = rig.World(LAYOUT[placement][0], handlers="default", cachetime=0, tag="c09")
            for view in ("gopher", "http", "gopherp_dir"):
                w.serve(*rig.request(view, LAYOUT[placement][3]))
                w.serve(*rig.request(view, LAYOUT[placement][2] or b"/"))
        _worlds[placement] = w
    return w


def _zip_case(w, lines, term):
    """The same gophermap inside an archive: /z.zip/gm/gophermap"""
    import zipfile, io

    buf = io.BytesIO()
    with zipfile.ZipFile(buf, "w") as z:
        for name, data in (("gm/gophermap", body_of(lines, term)), ("gm/rel.txt", b"r\n"), ("gm/sub/deep.txt", b"d\n"), ("gm/f&g.txt", b"fg\n")):
            zi = zipfile.ZipInfo(name, date_time=(2004, 1, 1, 0, 0, 0))
            zi.external_attr = 0o100644 << 16
            z.writestr(zi, data)
    rig.write_file(os.path.join(w.root, "z.zip"), buf.getvalue(), mtime=1000000000)


def check_one(lines, term, placement, views):
    w = world_for(placement)
    rig.reset_lazies()  # several worlds live in this process; the root path is one of the lazily cached values
    bad = []
    if placement == "zip":
        dirsel, reqsel = b"/z.zip/gm", b"/z.zip/gm"
        _zip_case(w, lines, term)
    else:
        tree, gpath, dirsel, reqsel = LAYOUT[placement]
        full = os.path.join(os.fsencode(w.root), gpath)
        rig.write_file(full, body_of(lines, term), mtime=1000000000)
        os.utime(os.path.dirname(full), (1000000000, 1000000000))
    want = expected_menu(reference(lines, dirsel))
    base = None
    raw_gopher = None
    for view in views:
        r, entries, err = fetch_listing(w, view, reqsel)
        if entries is None:
            bad.append((view, "listing", err))
            continue
        got = canon_entries(view, entries, drop_info=False)
        if view == "gopher":
            base = got
            # host and port fields that the map spells out reach the menu as written (info lines included,
            # which the (info, name, target) view does not compare)
            raw = list(parsers.gopher_menu_lines(r.out))
            raw_gopher = [(t, name, sel_, host_, int(port_)) for t, name, sel_, host_, port_, plus in raw]
            refs = reference(lines, dirsel)
            if len(raw) == len(refs):
                for k, ((t, name, sel_, host_, port_, plus), (typ, desc, rsel, rhost, rport)) in enumerate(zip(raw, refs)):
                    if (rhost is not None and host_ != rhost) or (rport is not None and int(port_) != rport):
                        bad.append((view, "fields", "gophermap line %r (%s, %s): the menu line carries host %r port %r, the map says %r %r" % (lines[k], term, placement, host_, port_, rhost, rport)))
            if got != want:
                i = next((j for j in range(min(len(got), len(want))) if got[j] != want[j]), min(len(got), len(want)))
                bad.append((view, "reference", "gophermap %r (%s, %s): entry #%d is %r, the documented reading gives %r (listing has %d entries, expected %d)" % (
                    lines, term, placement, i, got[i:i + 1], want[i:i + 1], len(got), len(want))))
        if view == "gopherp_dir":
            # the same fields in the +INFO lines of the attribute listing
            import re as _re

            infos = _re.findall(rb"(?m)^\+INFO: (.)([^\t\r\n]*)\t([^\t\r\n]*)\t([^\t\r\n]*)\t(\d+)", r.out)
            infos = [(t, name, sel_, host_, int(port_)) for t, name, sel_, host_, port_ in infos]
            if raw_gopher is not None and infos != raw_gopher:
                k = next((j for j in range(min(len(infos), len(raw_gopher))) if infos[j] != raw_gopher[j]), min(len(infos), len(raw_gopher)))
                bad.append((view, "fields", "gophermap %r (%s, %s): +INFO line #%d of the attribute listing is %r, the Gopher menu line is %r" % (lines, term, placement, k, infos[k:k + 1], raw_gopher[k:k + 1])))
        if view != "gopher" and base is not None and got != base:
            i = next((j for j in range(min(len(got), len(base))) if got[j] != base[j]), min(len(got), len(base)))
            bad.append((view, "cross-protocol", "gophermap %r (%s, %s): %s entry #%d is %r, gopher shows %r" % (lines, term, placement, view, i, got[i:i + 1], base[i:i + 1])))
    return bad


def _shard(shard, seed, tier):
    part = core.Partial()
    for idxs, term, placement, allviews in shard:
        lines = [SHAPES[i] for i in idxs]
        views = VIEWS if allviews else ["gopher"]
        bad = check_one(lines, term, placement, views)
        part.evaluations += len(views)
        part.transitions += len(views)
        part.state(idxs, term, placement)
        part.outcome(placement, term, len(idxs), tuple(sorted(set(b[1] for b in bad))), idxs[0])
        part.sample({"gophermap_lines": lines, "terminator": term, "placement": placement, "views": views}, limit=2)
        seen = set()
        for view, cls, det in bad:
            k = "%s|%s|%s|%s|%s" % (",".join(map(str, idxs)), term, placement, view, cls)
            if k in seen:
                continue
            seen.add(k)
            part.violation(k, det, {"idxs": list(idxs), "term": term, "placement": placement, "allviews": allviews})
    for w in _worlds.values():
        w.destroy()
    _worlds.clear()
    return part


def replay(case):
    try:
        # a different gophermap first, then the case: what a long-lived server would have seen
        check_one([SHAPES[0]], "lf", case["placement"], ["gopher"])
        bad = check_one([SHAPES[i] for i in case["idxs"]], case["term"], case["placement"], VIEWS if case["allviews"] else ["gopher"])
    finally:
        for w in _worlds.values():
            w.destroy()
        _worlds.clear()
    return (bad[0][1], bad[0][2]) if bad else None


def run(ck):
    items = []
    n = len(SHAPES)
    maxlen = 3
    for k in range(1, maxlen + 1):
        for idxs in itertools.product(range(n), repeat=k):
            for placement in PLACEMENTS:
                for term in ("lf", "crlf", "nolast"):
                    if k == 3 and term != "lf":
                        continue
                    if term == "nolast" and SHAPES[idxs[-1]] == b"":
                        continue  # an empty unterminated last line is no line at all
                    if k == 3 and ck.tier == "quick" and placement in ("d2", "rootfile", "zip"):
                        continue
                    if placement == "zip" and term != "lf" and k > 1:
                        continue
                    allviews = k <= 2 and (term == "lf" or k == 1)
                    items.append((idxs, term, placement, allviews))
    if ck.seed:
        import random

        random.Random(ck.seed).shuffle(items)
    ck.pmap(_shard, core.chunks(items, core.NPROC * 4))
    ck.rule = ("gophermaps = all sequences of <= %d lines over %d line shapes x terminators {LF, CRLF, last line unterminated} x placements %s; every one listed through plain Gopher and compared with the documented reading, "
               "sequences of <= 2 lines also through %d protocol forms and compared with the Gopher view; distinct = (placement, terminator, length, verdict, first shape)" % (maxlen, n, PLACEMENTS, len(VIEWS)))
    ck.bounds = {"max_lines": maxlen, "shapes": n}
    ck.assumptions = ["well-formed gophermaps: no leading blanks on a line, numeric port fields", "the Gopher+ flag of a rendered line is not part of the documented rendering and is ignored"]

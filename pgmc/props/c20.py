"""C20 — a failing client connection is contained in its own handler.

E2 fault enumeration: for every response kind a clean run counts the writes W;
then for every k in 1..W and every error class the k-th and all later writes
raise.  Oracle: nothing leaves GopherRequestHandler.handle(); the log carries
the client address with the failure's own class and no EXCEPTION record of any
other class; the set of open descriptors afterwards equals the set before.
"""
from __future__ import annotations

import errno
import time
import gc
import os
import re
import socket

from .. import core, rig, worlds

ID = "C20"


def _epipe():
    return BrokenPipeError(errno.EPIPE, "Broken pipe")


def _reset():
    return ConnectionResetError(errno.ECONNRESET, "Connection reset by peer")


def _timeout():
    return socket.timeout("timed out")


ERRORS = {"EPIPE": _epipe, "ECONNRESET": _reset, "timeout": _timeout}

KINDS = [
    ("gopher-doc", "gopher", b"/big.txt"), ("gopher-menu", "gopher", b"/"), ("gopher-error", "gopher", b"/nope"),
    ("gopherp-doc", "gopherp", b"/big.txt"), ("gopherp-info", "gopherp_info", b"/f.txt"), ("gopherp-dir", "gopherp_dir", b"/a"),
    ("gopherp-error", "gopherp", b"/nope"), ("zip-member", "gopher", b"/z.zip/sub/g.txt"), ("zip-dir", "gopherp_dir", b"/z.zip"),
    ("mbox-message", "gopher", b"/m.mbox|/MBOX-MESSAGE/2"), ("mbox-folder", "gopher", b"/m.mbox"), ("maildir-message", "http", b"/md|/MAILDIR-MESSAGE/1"),
    ("http-doc", "http", b"/big.txt"), ("http-head", "http_head", b"/f.txt"), ("http-404", "http", b"/nope"), ("http-menu", "http", b"/a"),
    ("https-doc", "https", b"/f.txt"), ("wap-text", "wap", b"/f.txt"), ("wap-menu", "wap", b"/"), ("wap-error", "wap", b"/nope"),
    ("gemini-doc", "gemini", b"/big.txt"), ("gemini-menu", "gemini", b"/a"), ("gemini-error", "gemini", b"/nope"),
    ("spartan-doc", "spartan", b"/f.txt"), ("spartan-menu", "spartan", b"/"), ("spartan-error", "spartan", b"/nope"),
    ("sgopher-menu", "sgopher", b"/gm"), ("tal-doc", "gopherp", b"/t.html.tal"), ("html-doc", "http", b"/h.html"), ("url-redirect", "gopher", b"URL:http://example.com/"),
    ("zip-member-gemini", "gemini", b"/z.zip/sub/g.txt"), ("zip-member-spartan", "spartan", b"/z.zip/f.txt"), ("zip-member-http", "http", b"/z.zip/sub/g.txt"),
    ("zip-member-plus", "gopherp", b"/z.zip/f.txt"), ("mbox-message-gemini", "gemini", b"/m.mbox|/MBOX-MESSAGE/1"), ("big-spartan", "spartan", b"/big.txt"),
    # documents of many copy blocks (a failure after tens of thousands of bytes have gone out)
    ("huge-gopher", "gopher", b"/huge.bin"), ("huge-http", "http", b"/huge.bin"), ("huge-gopherp", "gopherp", b"/huge.bin"), ("huge-zip-member", "gopher", b"/hz.zip/huge.bin"),
    # names that are not UTF-8
    ("latin1-gopher", "gopher", b"/caf\xe9.txt"), ("latin1-http", "http", b"/caf\xe9.txt"), ("latin1-gemini", "gemini", b"/caf\xe9.txt"), ("latin1-error", "gopher", b"/nope\xe9"),
    ("latin1-dir", "gopher", b"/d\xe9r"), ("latin1-spartan-404", "spartan", b"/nope\xe9"),
    # the server itself fails to read the document (I/O error), and THEN the client goes away during the error reply
    ("ioerr-gopher", "gopher", b"/ioerr.txt"), ("ioerr-gopherp", "gopherp", b"/ioerr.txt"), ("ioerr-http", "http", b"/ioerr.txt"), ("ioerr-wap", "wap", b"/ioerr.txt"),
    ("ioerr-gemini", "gemini", b"/ioerr.txt"), ("ioerr-spartan", "spartan", b"/ioerr.txt"),
    ("gz-doc", "http", b"/c.txt.gz"), ("gz-big-https", "https", b"/bigc.txt.gz"), ("gz-big-sgopher", "sgopher", b"/bigc.txt.gz"), ("gz-big-gemini", "gemini", b"/bigc.txt.gz"), ("gz-big-gopherp", "gopherp", b"/bigc.txt.gz"), ("script", "gopher", b"/s.sh"), ("pyg", "gemini", b"/p.pyg"), ("icon", "http", b"/PYGOPHERD-HTTPPROTO-ICONS/text.gif"),
]


_io_patched = False


def _patch_ioerr():
    """Seam: reading /ioerr.txt fails with EIO (a medium error) after the file has been found."""
    global _io_patched
    if _io_patched:
        return
    from pygopherd.handlers.base import VFS_Real

    o_open = VFS_Real.open

    def open_(self, selector, *a, **k):
        if selector == "/ioerr.txt" and type(self) is VFS_Real:
            raise OSError(errno.EIO, "Input/output error (injected)")
        return o_open(self, selector, *a, **k)

    VFS_Real.open = open_
    _io_patched = True


def _children():
    """Child processes of this process that are still around (running or not reaped)."""
    out = set()
    try:
        for t in os.listdir("/proc/self/task"):
            with open("/proc/self/task/%s/children" % t) as f:
                out.update(int(x) for x in f.read().split())
    except OSError:
        pass
    return out


def _fds():
    out = {}
    for n in os.listdir("/proc/self/fd"):
        try:
            out[int(n)] = os.readlink("/proc/self/fd/" + n)
        except OSError:
            pass
    return out


_w = None


def _world():
    global _w
    if _w is None:
        spec = worlds.standard_spec(full=True)
        spec["big.txt"] = (b"0123456789abcdef" * 64 + b"\n") * 9  # > 2 copy blocks
        spec["huge.bin"] = bytes(range(256)) * 800  # 200 KiB
        spec["bigc.txt.gz"] = worlds.gz(b"a line of the big compressed document\n" * 6000)  # > any pipe buffer once decompressed
        spec["hz.zip"] = worlds.make_zip([("huge.bin", bytes(range(256)) * 600), ("small.txt", b"s\n")])
        spec[b"caf\xe9.txt"] = b"latin-1 name\n" * 400
        spec[b"d\xe9r"] = {b"in\xe9.txt": b"x\n", b"plain.txt": b"y\n"}
        spec["ioerr.txt"] = b"never readable\n" * 10
        _patch_ioerr()
        _w = rig.World(spec, handlers="full", cachetime=0, tag="c20")
        for _, proto, sel in KINDS:  # warm-up: lazies, imports, cache files
            _w.serve(*rig.request(proto, sel))
    return _w


def _probe(kind, proto, sel, k, errname, once=False):
    w = _world()
    data, tls = rig.request(proto, sel)
    gc.collect()
    before = _fds()
    kids_before = _children()
    r = w.serve(data, tls, fail_at=k, fail_exc=ERRORS[errname], fail_once=once)
    # drop the harness's own references to the request's objects (the recorded
    # protocol object, exception tracebacks) before looking for leaks
    rig.PM.last = None
    escaped_desc = None if r.escaped is None else (type(r.escaped).__name__, str(r.escaped))
    r.escaped = None
    r.caught = []
    del rig.CATCHALL.caught[:]
    gc.collect()
    after = _fds()
    bad = []
    own = {"EPIPE": "BrokenPipeError", "ECONNRESET": "ConnectionResetError", "timeout": type(_timeout()).__name__}[errname]
    if escaped_desc is not None:
        bad.append(("escaped", "exception left handle(): %s: %s" % escaped_desc))
    if r.failed_writes:
        exc_records = [l for l in r.log if " EXCEPTION " in l]
        classes = []
        for l in exc_records:
            m = re.match(r"^(\S+) \[[^\]]*\] EXCEPTION (\w+):", l)
            if m:
                classes.append((m.group(1), m.group(2)))
        if not any(c == own and a == rig.CLIENT_ADDR[0] for a, c in classes):
            bad.append(("not-logged", "no log record with the client address and class %s; records: %r" % (own, exc_records[:4])))
        is_error_kind = kind.endswith(("-error", "-404"))
        others = [c for a, c in classes if c != own and not (c == "FileNotFound" and is_error_kind) and not (c == "OSError" and kind.startswith("ioerr-"))]
        if others:
            bad.append(("other-class", "failure logged as %r instead of %s: %r" % (sorted(set(others)), own, exc_records[:4])))
    kids = _children() - kids_before
    if kids:
        import time

        time.sleep(0.2)  # a child that is just exiting
        kids = _children() - kids_before
    if kids:
        bad.append(("child-left", "child processes started for the request are still there after it ended: %r" % sorted(kids)))
        for pid in kids:
            try:
                os.kill(pid, 9)
                os.waitpid(pid, 0)
            except OSError:
                pass
    leaked = {fd: p for fd, p in after.items() if fd not in before}
    if leaked:
        bad.append(("fd-leak", "descriptors still open after the connection was torn down: %r" % (leaked,)))
    return r, bad


def _shard(shard, seed, tier):
    part = core.Partial()
    for kind, proto, sel in shard:
        w = _world()
        data, tls = rig.request(proto, sel)
        clean = w.serve(data, tls)
        if clean.internal_error and not (kind.startswith("ioerr-") and clean.escaped is None):
            raise core.HarnessError("clean run of %s failed: %s" % (kind, clean.describe_error()))
        W = clean.nwrites if hasattr(clean, "nwrites") else len(clean.writes)
        part.sample({"kind": kind, "request": data, "writes_in_clean_run": W}, limit=2)
        for k in range(1, W + 2):
            for errname in ERRORS:
                for once in (False, True):
                    # once=False: the connection is gone (the k-th and every later write fail);
                    # once=True: a transient failure (only the k-th write fails)
                    r, bad = _probe(kind, proto, sel, k, errname, once)
                    part.evaluations += 1
                    part.transitions += r.failed_writes + len(r.writes)
                    part.state(kind, k, errname, once)
                    part.outcome(kind, errname, tuple(b[0] for b in bad), min(r.failed_writes, 3), once)
                    for cls, det in bad:
                        part.violation("%s|write=%d/%d|%s|%s|%s" % (kind, k, W, errname, "transient" if once else "gone", cls), det,
                                       {"kind": kind, "proto": proto, "sel": sel, "k": k, "err": errname, "once": once})
    global _w
    if _w is not None:
        _w.destroy()
        _w = None
    return part


RESET_MODES = {"fork": {}, "thread": {"servertype": "ThreadingTCPServer"}, "thread+tls": {"tls": True, "servertype": "ThreadingTCPServer"}}


def _shard_reset(shard, seed, tier):
    """Real deployment, real client that reads 64 kB of a multi-megabyte document and then resets the connection
    (or closes it politely and goes away).  The server -- every process of it -- survives, writes a log record
    that names the client and the failure's own class and none naming another class, keeps no worker around,
    and answers the next client."""
    from .. import deploy, worlds

    part = core.Partial()
    mname = shard
    mode = RESET_MODES[mname]
    size = 6_000_000
    text = b"".join(b"line %09d of the big text\n" % i for i in range(size // 27))
    spec = {"huge.bin": bytes(range(256)) * (size // 256), "bigout.sh": ("exec", b"#!/bin/sh\nhead -c %d /dev/zero | tr '\\0' 'z'\n" % size), "hugec.txt.gz": worlds.gz(text), "f.txt": b"still here\n"}
    srv = deploy.Server(spec, mode, tag="c20r")
    own = (b"BrokenPipeError", b"ConnectionResetError", b"ConnectionAbortedError")
    try:
        if not srv.started:
            part.violation("reset|%s|start" % mname, "deployment did not come up: %r" % srv.log()[-400:], {"kind": "reset", "mode": mname})
            return part
        cases = [("gopher", b"/huge.bin"), ("http", b"/huge.bin"), ("gopherp", b"/huge.bin"), ("gopher", b"/hugec.txt.gz"), ("http", b"/hugec.txt.gz"), ("gopher", b"/bigout.sh")]
        if mode.get("tls"):
            cases += [("sgopher", b"/huge.bin"), ("gemini", b"/hugec.txt.gz")]
        for proto, sel in cases:
            data, tls = rig.request(proto, sel)
            mark = len(srv.log())
            got, err = srv.fetch(data, tls, reset_after=65536)
            # the record appears when the worker notices (its next write): poll for it instead of guessing a delay
            deadline = time.time() + 8
            while time.time() < deadline:
                new = srv.log()[mark:]
                if re.search(rb"^(\S+) \[[^\]]*\] EXCEPTION (\w+)", new, re.M) or not srv.alive():
                    break
                time.sleep(0.1)
            time.sleep(0.3)
            new = srv.log()[mark:]
            bad = []
            if not srv.alive():
                bad.append(("server-died", "the server process ended after a client reset its connection (exit status %r)" % srv.proc.poll()))
            recs = re.findall(rb"^(\S+) \[[^\]]*\] EXCEPTION (\w+)", new, re.M)
            if tls:
                # through TLS a vanished peer surfaces as one of the SSL layer's own I/O errors
                recs = [(a, b"ConnectionResetError" if c in (b"SSLEOFError", b"SSLError", b"SSLSyscallError", b"SSLZeroReturnError") else c) for a, c in recs]
            produced_by_child = sel in (b"/bigout.sh",) or (sel == b"/hugec.txt.gz" and not tls)
            if not any(c in own for a, c in recs) and not produced_by_child:
                bad.append(("not-logged", "no log record naming the client and its failure's class after the reset; new log lines: %r" % new[-400:]))
            others = [c for a, c in recs if c not in own and c != b"timeout"]
            if others:
                bad.append(("other-class", "the client's reset is logged as %r: %r" % (sorted(set(others)), new[-400:])))
            again, err2 = srv.fetch(b"/f.txt\r\n", False)
            if again != b"still here\n":
                bad.append(("no-longer-serving", "after the reset the next client gets %r (%s)" % (again[:60], err2)))
            part.evaluations += 1
            part.transitions += 2
            part.state("reset", mname, proto, sel)
            part.outcome("reset", mname, proto, sel, tuple(b[0] for b in bad))
            for cls, det in bad:
                part.violation("reset|%s|%s|%s|%s" % (mname, proto, sel.decode(), cls), det, {"kind": "reset", "mode": mname})
            if not srv.alive():
                break
        time.sleep(0.5)
        kids = srv.children()
        deadline = time.time() + 10
        while srv.alive() and kids and time.time() < deadline:
            time.sleep(0.3)
            kids = srv.children()
        if srv.alive() and kids:
            if kids:
                part.violation("reset|%s|workers-left" % mname, "worker/child processes still around after their clients went away: %r" % sorted(kids), {"kind": "reset", "mode": mname})
    finally:
        srv.stop()
    return part


def replay(case):
    if case.get("kind") == "reset":
        p = _shard_reset(case["mode"], 0, "quick")
        return (p.violations[0][0], p.violations[0][1]) if p.violations else None
    global _w
    try:
        r, bad = _probe(case["kind"], case["proto"], case["sel"], case["k"], case["err"], case.get("once", False))
    finally:
        if _w is not None:
            _w.destroy()
            _w = None
    return (bad[0][0], bad[0][1]) if bad else None


def run(ck):
    kinds = list(KINDS)
    ck.pmap(_shard_reset, sorted(RESET_MODES))
    ck.pmap(_shard, core.chunks(kinds, core.NPROC))
    ck.rule = ("%d response kinds x every write index 1..W+1 (W = writes of the clean run) x {EPIPE, ECONNRESET, single-argument timeout}: the k-th and all later writes raise; "
               "distinct = (kind, error class, verdict, number of failed writes capped at 3)" % len(KINDS))
    ck.bounds = {"kinds": len(KINDS), "error_classes": 3}
    ck.assumptions = ["a write is one sendall() of the unbuffered connection writer; output produced by a subprocess (scripts, decompressors) is not a write index",
                      "descriptor accounting via /proc/self/fd after gc.collect()"]

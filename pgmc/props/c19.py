"""C19 — privileges are dropped completely and in the right order at start-up.

E2 fault enumeration: all 8 combinations of usechroot / setuid / setgid x
{no fault, each privileged call raising in turn}, for init_security() alone and
for the whole initialize() (real bind on port 0, TLS off and on, with the bind
and the certificate load also failing in turn).  Every privileged entry point
is substituted by a recorder; the recorded trace is judged by a reference model
of the required order.
"""
from __future__ import annotations

import configparser
import itertools
import os
import socketserver
import ssl

from .. import core, rig

ID = "C19"

PRIV = ["getpwnam", "getgrnam", "chroot", "chdir", "setgroups", "setregid", "setreuid", "setresgid", "setresuid", "setgid", "setuid", "initgroups", "fchdir"]
TRUE_SPELLINGS = ["yes", "on", "true", "1", "Yes", "ON", "True"]
FALSE_SPELLINGS = ["no", "off", "false", "0", "No", "OFF"]
ENV = ["server_bind", "load_cert_chain"]
UID, GID = 4242, 4343


class _Injected(Exception):
    pass


class Recorder:
    def __init__(self, fail_at=None):
        self.trace = []
        self.fail_at = fail_at  # (name, occurrence index)
        self.counts = {}

    def call(self, name, *args):
        k = self.counts.get(name, 0)
        self.counts[name] = k + 1
        self.trace.append((name,) + args)
        if self.fail_at is not None and len(self.fail_at) == 3 and self.fail_at[0] == name:
            # a call that fails every time it is tried (a retry must not end in carrying on)
            self.trace.append(("RAISED", name))
            raise OSError(self.fail_at[2], os.strerror(self.fail_at[2]) + " (injected, persistent)")
        if self.fail_at == (name, k):
            self.trace.append(("RAISED", name))
            if name in ("getpwnam", "getgrnam"):
                raise KeyError("injected: no such name")
            if name == "load_cert_chain":
                raise ssl.SSLError("injected: bad certificate")
            if name == "server_bind":
                raise OSError(98, "injected: address in use")
            raise PermissionError(1, "injected: operation not permitted")


CWDS = {"elsewhere": "/srv/other/place", "sibling-prefix": "{docroot}-private", "inside": "{docroot}/sub", "root": "{docroot}", "parent": "{parent}"}


def run_startup(mode, usechroot, setuid, setgid, tls, fail_at, detach=False, euid=0, spelling=None, cwd="elsewhere"):
    """-> (trace, outcome, final root, server-returned?)"""
    import grp
    import pwd

    import pygopherd.initialization as I
    from pygopherd import logger, sighandlers

    rec = Recorder(fail_at)
    root = rig.fresh_dir("c19")
    saved = {}

    def patch(obj, name, fn):
        saved[(obj, name)] = getattr(obj, name)
        setattr(obj, name, fn)

    patch(os, "chroot", lambda p: rec.call("chroot", p))
    patch(os, "chdir", lambda p: rec.call("chdir", p))
    patch(os, "setgroups", lambda g: rec.call("setgroups", tuple(g)))
    patch(os, "setregid", lambda a, b: rec.call("setregid", a, b))
    patch(os, "setreuid", lambda a, b: rec.call("setreuid", a, b))
    for extra in ("setgid", "setuid", "setresgid", "setresuid", "setegid", "seteuid", "initgroups", "fchdir"):
        if hasattr(os, extra):
            patch(os, extra, (lambda n: (lambda *a: rec.call(n, *a)))(extra))
    patch(os, "setpgrp", lambda: rec.call("setpgrp"))
    patch(os, "fork", lambda: (rec.call("fork"), 0)[1])  # detach: we are the child
    docroot0 = os.path.join(root, "docroot")
    cwd_path = CWDS[cwd].format(docroot=docroot0, parent=root)
    patch(os, "getcwd", lambda: cwd_path)
    patch(os, "getcwdb", lambda: os.fsencode(cwd_path))
    patch(os, "geteuid", lambda: euid)
    patch(os, "getuid", lambda: euid)
    patch(pwd, "getpwnam", lambda n: (rec.call("getpwnam", n), ("x", "x", UID, GID, "", "/", "/bin/false"))[1])
    patch(grp, "getgrnam", lambda n: (rec.call("getgrnam", n), ("x", "x", GID, []))[1])
    o_bind = socketserver.TCPServer.server_bind

    def server_bind(self):
        rec.call("server_bind")
        return o_bind(self)

    patch(socketserver.TCPServer, "server_bind", server_bind)
    o_load = ssl.SSLContext.load_cert_chain

    def load_cert_chain(self, *a, **k):
        rec.call("load_cert_chain")
        return o_load(self, *a, **k)

    patch(ssl.SSLContext, "load_cert_chain", load_cert_chain)
    o_set = configparser.ConfigParser.set

    def cset(self, section, option, value=None):
        if section == "pygopherd" and option == "root":
            rec.call("config.set-root", value)
        return o_set(self, section, option, value)

    patch(configparser.ConfigParser, "set", cset)
    patch(sighandlers, "setsighuphandler", lambda: rec.call("sighup"))
    patch(sighandlers, "setsigtermhandler", lambda: rec.call("sigterm"))
    oldlog = logger.log
    outcome = "ok"
    server = None
    config = None
    try:
        conf_path = os.path.join(root, "pygopherd.conf")
        c = configparser.ConfigParser()
        c.read(rig.SHIPPED_CONF)
        configparser.ConfigParser.set = o_set
        c.set("pygopherd", "root", os.path.join(root, "docroot"))
        os.makedirs(os.path.join(root, "docroot"))
        c.set("pygopherd", "mimetypes", rig.MIME_TYPES)
        c.set("pygopherd", "port", "0")
        c.set("pygopherd", "interface", "127.0.0.1")
        c.set("pygopherd", "servertype", "ThreadingTCPServer")
        c.set("pygopherd", "detach", "yes" if detach else "no")
        c.set("pygopherd", "pidfile", os.path.join(root, "pid"))
        c.set("pygopherd", "usechroot", spelling if spelling is not None else ("yes" if usechroot else "no"))
        c.set("logger", "logmethod", "none")
        if setuid:
            c.set("pygopherd", "setuid", "gopheruser")
        elif c.has_option("pygopherd", "setuid"):
            c.remove_option("pygopherd", "setuid")
        if setgid:
            c.set("pygopherd", "setgid", "gophergroup")
        elif c.has_option("pygopherd", "setgid"):
            c.remove_option("pygopherd", "setgid")
        c.set("pygopherd", "enable_tls", "yes" if tls else "no")
        c.set("pygopherd", "tls_certfile", os.path.join(rig.REPO, "testdata", "demo.crt"))
        c.set("pygopherd", "tls_keyfile", os.path.join(rig.REPO, "testdata", "demo.key"))
        with open(conf_path, "w") as f:
            c.write(f)
        configparser.ConfigParser.set = cset
        try:
            if mode == "security":
                config = I.init_config(conf_path)
                I.init_security(config)
            else:
                server = I.initialize(conf_path)
                config = server.config
        except BaseException as e:  # noqa
            outcome = "raised:" + type(e).__name__
    finally:
        for (obj, name), fn in saved.items():
            setattr(obj, name, fn)
        logger.log = oldlog
        rig._mime_inited = None  # initialize() re-ran init_mimetypes
        if server is not None:
            try:
                server.server_close()
            except Exception:
                pass
    final_root = config.get("pygopherd", "root") if config is not None else None
    docroot = os.path.join(root, "docroot")
    rig.rmtree(root)
    return rec.trace, outcome, final_root, server is not None, docroot


DROP = {"chroot", "setgroups", "setregid", "setreuid", "setgid", "setuid", "setresgid", "setresuid", "setegid", "seteuid", "initgroups"}


def judge(mode, usechroot, setuid, setgid, tls, fail_at, trace, outcome, final_root, got_server, docroot, cwd="elsewhere"):
    bad = []
    names = [t[0] for t in trace]
    raised = [t[1] for t in trace if t[0] == "RAISED"]

    def idx(n):
        return names.index(n) if n in names else None

    first_drop = next((i for i, n in enumerate(names) if n in DROP), None)
    if mode == "initialize" and first_drop is not None:
        if idx("server_bind") is None or idx("server_bind") > first_drop:
            bad.append(("bind-after-drop", "a privilege was given up before the listening socket was bound: %r" % names))
        if tls and (idx("load_cert_chain") is None or idx("load_cert_chain") > first_drop):
            bad.append(("keys-after-drop", "a privilege was given up before the TLS key was loaded: %r" % names))
    if fail_at is not None and raised:
        # a failure aborts start-up: propagates, nothing privileged afterwards, no server
        k = names.index("RAISED")
        later = [n for n in names[k + 1:] if (n in DROP or n in ("chdir",)) and not (len(fail_at) == 3 and n == fail_at[0])]
        if later:
            bad.append(("continues-after-failure", "after %s failed start-up went on with %r" % (raised[0], later)))
        if not outcome.startswith("raised"):
            bad.append(("failure-swallowed", "%s failed but start-up reported success (trace %r)" % (raised[0], names)))
        if got_server:
            bad.append(("serves-after-failure", "%s failed but initialize() returned a server" % raised[0]))
        return bad
    if outcome != "ok":
        bad.append(("unexpected-exception", "start-up raised %s without an injected fault: %r" % (outcome, names)))
        return bad
    # complete drop, right order
    if usechroot:
        if "chroot" not in names:
            bad.append(("no-chroot", "usechroot is set but chroot was never called: %r" % names))
        else:
            c = idx("chroot")
            if trace[c][1] != docroot:
                bad.append(("chroot-target", "chroot(%r), configured root is %r" % (trace[c][1], docroot)))
            ids = [i for i, n in enumerate(names) if n in DROP and n != "chroot"]
            if ids and min(ids) < c:
                bad.append(("chroot-not-first", "an id change precedes chroot: %r" % names))
            if final_root != "/":
                bad.append(("root-not-rewritten", "after chroot the configured root is %r, not '/'" % final_root))
            # working directory inside the new root
            inside = False
            for i, t in enumerate(trace):
                if t[0] == "chdir":
                    if i < c:
                        inside = (t[1] == docroot)
                    else:
                        inside = str(t[1]).startswith("/")
                elif t[0] == "chroot":
                    pass
            if not inside and cwd in ("inside", "root") and not any(t[0] == "chdir" for t in trace):
                inside = True  # it never left the tree that became the new root
            if not inside:
                bad.append(("cwd-outside-chroot", "no chdir into the new root around chroot(): the working directory stays outside it (%r)" % names))
    else:
        if "chroot" in names:
            bad.append(("unconfigured-chroot", "chroot called although usechroot is off"))
    want_groups = setuid or setgid
    if want_groups:
        if "setgroups" not in names or trace[idx("setgroups")][1] != ():
            bad.append(("groups-not-cleared", "supplementary groups not cleared: %r" % (trace,)))
    # any call that changes real, effective AND saved id at once counts (set*id as root, setre*id, setres*id)
    GCALLS, UCALLS = ("setregid", "setresgid", "setgid"), ("setreuid", "setresuid", "setuid")

    def full_change(calls, want):
        for i, t in enumerate(trace):
            if t[0] in calls and len(t) > 1 and all(a == want for a in t[1:]):
                return i
        return None

    g = full_change(GCALLS, GID)
    if setgid:
        if g is None:
            bad.append(("gid-not-set", "group not changed to %d: %r" % (GID, trace)))
        elif idx("setgroups") is not None and idx("setgroups") > g:
            bad.append(("groups-after-gid", "setgroups after the group change: %r" % names))
    elif any(n in names for n in GCALLS + ("setegid",)):
        bad.append(("unconfigured-gid", "group changed although setgid is not configured"))
    if setuid:
        u = full_change(UCALLS, UID)
        if u is None:
            bad.append(("uid-not-set", "user not changed to %d: %r" % (UID, trace)))
        else:
            for n in GCALLS + ("setgroups", "chroot"):
                if idx(n) is not None and idx(n) > u:
                    bad.append(("uid-before-" + n, "%s after the user change (no longer permitted once the user is changed): %r" % (n, names)))
    elif any(n in names for n in UCALLS + ("seteuid",)):
        bad.append(("unconfigured-uid", "user changed although setuid is not configured"))
    if mode == "initialize" and not got_server:
        bad.append(("no-server", "start-up succeeded but returned no server"))
    return bad


def _cases():
    out = []
    for mode in ("security", "initialize"):
        for usechroot, setuid, setgid in itertools.product((False, True), repeat=3):
            for tls in ((False,) if mode == "security" else (False, True)):
                for detach in ((False,) if mode == "security" else (False, True)):
                    for euid in (0, 1000, UID):  # root, some other user, already the target user (effective id only)
                        out.append((mode, usechroot, setuid, setgid, tls, detach, euid, None, "elsewhere"))
    # every spelling of a boolean the configuration format accepts, and every place start-up may be launched from
    for setuid, setgid in itertools.product((False, True), repeat=2):
        for sp in TRUE_SPELLINGS + FALSE_SPELLINGS:
            out.append(("security", sp in TRUE_SPELLINGS, setuid, setgid, False, False, 0, sp, "elsewhere"))
        out.append(("initialize", True, setuid, setgid, False, False, 0, "on", "elsewhere"))
        for cwd in CWDS:
            for mode, detach in (("security", False), ("initialize", False), ("initialize", True)):
                out.append((mode, True, setuid, setgid, False, detach, 0, None, cwd))
    return out


def _shard(shard, seed, tier):
    part = core.Partial()
    for mode, usechroot, setuid, setgid, tls, detach, euid, spelling, cwd in shard:
        trace, outcome, final_root, got, docroot = run_startup(mode, usechroot, setuid, setgid, tls, None, detach, euid, spelling, cwd)
        names = [t[0] for t in trace]
        faults = [None]
        seen = {}
        for n in (names if spelling is None and cwd == "elsewhere" else []):
            if n == "chdir" and not usechroot:
                continue  # the chdir of a detaching daemon is no privileged step
            if n in PRIV or n in ENV:
                k = seen.get(n, 0)
                seen[n] = k + 1
                faults.append((n, k))
                if k == 0 and mode == "security" and n in ("chroot", "setgroups", "setregid", "setreuid", "setresgid", "setresuid", "setgid", "setuid"):
                    import errno as _errno

                    faults.append((n, "all", _errno.EAGAIN))
                    faults.append((n, "all", _errno.ENOMEM))
        for fa in faults:
            if fa is not None:
                trace, outcome, final_root, got, docroot = run_startup(mode, usechroot, setuid, setgid, tls, fa, detach, euid, spelling, cwd)
            bad = judge(mode, usechroot, setuid, setgid, tls, fa, trace, outcome, final_root, got, docroot, cwd)
            part.evaluations += 1
            part.transitions += len(trace)
            part.state(mode, usechroot, setuid, setgid, tls, fa, detach, euid, spelling, cwd)
            part.outcome(mode, usechroot, setuid, setgid, tls, fa[0] if fa else None, tuple(b[0] for b in bad), detach, euid, spelling, cwd)
            part.sample({"mode": mode, "usechroot": usechroot, "setuid": setuid, "setgid": setgid, "tls": tls, "fault": fa, "trace": [list(map(str, t)) for t in trace]}, limit=2)
            for cls, det in bad:
                part.violation("%s|chroot=%d|uid=%d|gid=%d|tls=%d|detach=%d|euid=%d|spelling=%s|cwd=%s|fault=%s|%s" % (mode, usechroot, setuid, setgid, tls, detach, euid, spelling, cwd, "%s#%s" % (fa[0], fa[1] if len(fa) == 2 else "every-time-errno%d" % fa[2]) if fa else "none", cls), det,
                               {"mode": mode, "usechroot": usechroot, "setuid": setuid, "setgid": setgid, "tls": tls, "fault": list(fa) if fa else None, "detach": detach, "euid": euid, "spelling": spelling, "cwd": cwd})
    return part


def _shard_real(shard, seed, tier):
    """The real thing (the checks run as root): `bin/pygopherd` started with every combination of
    usechroot / setuid+setgid, both server types, TLS on with a root-only key outside the document root.
    Afterwards the kernel's view of the process must be the configured one, and it must serve."""
    from .. import deploy

    part = core.Partial()
    for chroot, drop, stype in shard:
        if not deploy.supported({"chroot": chroot, "drop": drop}):
            part.count("deploy_mode_not_possible_here")
            continue
        srv = deploy.Server({"f.txt": b"inside\n", "d": {"g.txt": b"g\n"}}, {"chroot": chroot, "drop": drop, "servertype": stype, "tls": True}, handlers="default", tag="c19r")
        bad = []
        try:
            if not srv.started:
                bad.append(("no-start", "the server did not come up: %r" % srv.log()[-500:]))
            else:
                uids, gids = srv.ids()
                if drop and (uids != (deploy.NOBODY_UID,) * 3 or gids != (deploy.NOBODY_GID,) * 3):
                    bad.append(("ids-kept", "configured to run as nobody/nogroup, the process runs with uids %r gids %r (real, effective, saved)" % (uids, gids)))
                if drop and srv.groups() not in ((), (deploy.NOBODY_GID,)):
                    bad.append(("groups-kept", "supplementary groups after the drop: %r" % (srv.groups(),)))
                if not drop and uids != (0, 0, 0):
                    bad.append(("unconfigured-drop", "no setuid configured, yet uids are %r" % (uids,)))
                if chroot:
                    if srv.root_of_process() != os.path.realpath(srv.root):
                        bad.append(("not-jailed", "usechroot = yes, the root directory of the process is %r" % srv.root_of_process()))
                    elif not (srv.cwd_of_process() or "").startswith(os.path.realpath(srv.root)):
                        bad.append(("cwd-outside-chroot", "the working directory of the jailed process is %r" % srv.cwd_of_process()))
                elif srv.root_of_process() != "/":
                    bad.append(("unconfigured-chroot", "usechroot = no, the root directory of the process is %r" % srv.root_of_process()))
                for label, data, tls, want in (("plain", b"/f.txt\r\n", False, b"inside\n"), ("tls", b"/f.txt\r\n", True, b"inside\n"), ("tls-menu", b"/d\r\n", True, b"g.txt"), ("https", b"GET /d/g.txt HTTP/1.0\r\n\r\n", True, b"g\n")):
                    got, err = srv.fetch(data, tls)
                    if err or want not in got:
                        bad.append(("does-not-serve", "after start-up (chroot=%s, drop=%s, %s) the %s request is answered %r %s; log: %r" % (chroot, drop, stype, label, got[:80], err or "", srv.log()[-300:])))
        finally:
            srv.stop()
        part.evaluations += 1
        part.transitions += 5
        part.state("real", chroot, drop, stype)
        part.outcome("real", chroot, drop, stype, tuple(b[0] for b in bad))
        for cls, det in bad:
            part.violation("real|chroot=%d|drop=%d|%s|%s" % (chroot, drop, stype, cls), det, {"real": True, "chroot": chroot, "drop": drop, "stype": stype})
    return part


def replay(case):
    if case.get("real"):
        p = _shard_real([(case["chroot"], case["drop"], case["stype"])], 0, "quick")
        return (p.violations[0][0].rsplit("|", 1)[1], p.violations[0][1]) if p.violations else None
    fa = tuple(case["fault"]) if case["fault"] else None
    trace, outcome, final_root, got, docroot = run_startup(case["mode"], case["usechroot"], case["setuid"], case["setgid"], case["tls"], fa, case.get("detach", False), case.get("euid", 0), case.get("spelling"), case.get("cwd", "elsewhere"))
    bad = judge(case["mode"], case["usechroot"], case["setuid"], case["setgid"], case["tls"], fa, trace, outcome, final_root, got, docroot, case.get("cwd", "elsewhere"))
    return bad[0] if bad else None


def run(ck):
    ck.pmap(_shard_real, [[(c, d, st)] for c in (False, True) for d in (False, True) for st in ("ForkingTCPServer", "ThreadingTCPServer")])
    ck.pmap(_shard, core.chunks(_cases(), core.NPROC))
    ck.rule = ("every accepted spelling of the usechroot boolean and five start directories (elsewhere, a sibling whose name starts like the root's, inside the root, the root, its parent) without faults; all 8 combinations of usechroot/setuid/setgid x {init_security alone; initialize() with TLS off and on} x {no fault, each occurrence of each privileged call (getpwnam, getgrnam, chroot, chdir, setgroups, setregid, setreuid) "
               "and of bind / certificate load raising}; the recorded call trace is judged by a reference model of the required order; distinct = (configuration, fault, verdict)")
    ck.bounds = {"configurations": len(_cases())}
    ck.assumptions = ["privileged entry points are substituted by recorders (nothing privileged is really executed); the working directory is simulated from the recorded chdir/chroot calls",
                      "bind is real (port 0 on 127.0.0.1), the certificate is the repository's testdata/demo.crt"]

"""C05 — listings only advertise what the server will serve (link closure).

E1 + E4: a content tree holding every name of the alphabet as every kind of
object (and every directory-name x child-name pair) is crawled breadth-first
from the root menu through each protocol's own request syntax: states are
(protocol, link as advertised), transitions are the local links of each listing.
Oracle: every local link is answered with success, and with a menu iff it was
advertised as a menu.
"""
from __future__ import annotations

import collections
import re

from .. import core, parsers, rig, worlds

ID = "C05"

CRAWLERS = ["gopher", "gopherp", "http", "wap", "gemini", "spartan", "sgopher", "https"]
URL_BASED = {"http", "wap", "gemini", "spartan", "https"}


def _family(c):
    return {"gopher": "gopher", "sgopher": "gopher", "gopherp": "gopherp", "http": "http", "https": "http", "wap": "wap", "gemini": "gemini", "spartan": "spartan"}[c]


def request_for(crawler, raw: bytes, kind):
    """The request a client of this protocol sends when it follows the link
    exactly as advertised."""
    host = rig.SERVER_NAME.encode()
    if crawler in ("gopher", "sgopher"):
        return raw + b"\r\n", crawler == "sgopher"
    if crawler == "gopherp":
        return raw + (b"\t$\r\n" if kind == "menu" else b"\t+\r\n"), False
    if crawler in ("http", "https", "wap"):
        return b"GET " + raw + b" HTTP/1.0\r\n\r\n", crawler == "https"
    if crawler == "gemini":
        return b"gemini://" + host + raw + b"\r\n", True
    if crawler == "spartan":
        return host + b" " + raw + b" 0\r\n", False
    raise ValueError(crawler)


def parse_listing(crawler, out: bytes):
    """-> (class, entries or None)"""
    fam = _family(crawler)
    cls, ct, body = parsers.classify(fam, out)
    if fam == "gopher":
        if cls == "notfound":
            return "notfound", None
        try:
            return "menu?", parsers.parse_gopher_menu(body)
        except ValueError:
            return "doc", None
    if fam == "gopherp":
        if cls != "ok":
            return cls, None
        try:
            return "menu?", parsers.parse_gopherp_dir(body)
        except ValueError:
            try:
                return "menu?", parsers.parse_gopher_menu(body)
            except ValueError:
                return "doc", None
    if cls != "menu":
        return cls, None
    if fam == "http":
        return "menu", parsers.parse_http_listing(body)
    if fam == "wap":
        return "menu", parsers.parse_wap_listing(body)
    return "menu", parsers.parse_gemtext_listing(body, spartan=(fam == "spartan"))


ROOT_LINK = {"gopher": b"", "sgopher": b"", "gopherp": b"", "http": b"/", "https": b"/", "wap": b"/wap/", "gemini": b"/", "spartan": b"/"}


def crawl(w, crawler, part, label, cap=20000, root_link=None, reached=None):
    """BFS from the root menu. -> list of (class, detail, link)"""
    bad = []
    seen = set()
    root_link = ROOT_LINK[crawler] if root_link is None else root_link
    queue = collections.deque([(root_link, "menu", b"<root>")])
    seen.add(root_link)
    visited = 0
    while queue:
        raw, kind, via = queue.popleft()
        visited += 1
        if visited > cap:
            part.extra.setdefault("capped", []).append(label)
            break
        data, tls = request_for(crawler, raw, kind)
        if (b"\t" in raw or b"\n" in raw or b"\r" in raw) and crawler not in URL_BASED:
            continue
        r = w.serve(data, tls)
        part.evaluations += 1
        part.transitions += 1
        part.state(label, crawler, raw)
        if r.internal_error:
            bad.append(("error", "following %r (listed in %r) via %s: %s" % (raw, via, crawler, r.describe_error()), raw))
            continue
        try:
            cls, entries = parse_listing(crawler, r.out)
        except ValueError as e:
            bad.append(("unparsable-listing", "listing behind %r via %s: %s" % (raw, crawler, e), raw))
            continue
        part.outcome(crawler, kind, cls)
        if cls in ("notfound", "invalid"):
            bad.append(("dead-link", "link %r advertised in %r via %s is answered %r" % (raw, via, crawler, r.out[:100]), raw))
            continue
        if kind == "menu" and cls not in ("menu", "menu?"):
            bad.append(("not-a-menu", "link %r advertised as a menu in %r via %s returns a document: %r" % (raw, via, crawler, r.out[:80]), raw))
            continue
        if kind == "doc" and cls == "menu":
            bad.append(("not-a-document", "link %r advertised as a document in %r via %s returns a menu" % (raw, via, crawler), raw))
            continue
        if kind == "doc" or entries is None:
            continue
        if kind is None and cls == "menu?":
            # protocol does not advertise kinds and a raw Gopher body cannot be told apart: do not descend
            continue
        for e in entries:
            if e["info"] or e["target"][0] != "local" or e.get("kind") == "search":
                continue
            link = e["raw"]
            if link in seen:
                continue
            seen.add(link)
            if reached is not None:
                reached.add(e["target"][1])
            queue.append((link, e.get("kind"), raw))
    return bad, visited


def _tree(name_subset, full, rootwap=None):
    spec = worlds.names_spec(name_subset, full=full)
    if rootwap:
        # a real top-level directory at the path of the WAP prefix, crawled through WAP only (there the reading is
        # unambiguous: the prefix comes off once, so <prefix><prefix> is the WAP view of that directory)
        d = spec
        parts = [x for x in rootwap.encode().split(b"/") if x]
        for x in parts[:-1]:
            d = d.setdefault(x, {})
        inner = {b"intro.txt": b"intro\n", b"more": {b"deep.txt": b"deep\n"}}
        sub = inner
        for x in reversed(parts):
            sub = {x: sub}
        inner.update({parts[0]: {b"again.txt": b"again\n"}})
        d[parts[-1]] = inner
    return spec


def _shard(shard, seed, tier):
    part = core.Partial()
    handlers, crawler, names = shard[:3]
    over = dict(shard[3]) if len(shard) > 3 else {}
    rootwap = over.pop("_rootwap", None)
    allnames = list(names)
    if crawler in URL_BASED and not rootwap:
        allnames = allnames + worlds.URL_ONLY_NAMES
    w = rig.World(_tree(allnames, handlers == "full", rootwap), handlers=handlers, cachetime=0, tag="c05", **over)
    try:
        label = "%s|%s|%d names%s%s" % (handlers, crawler, len(allnames), "|" + ",".join("%s=%s" % kv for kv in sorted(over.items())) if over else "", "|rootwap=" + rootwap if rootwap else "")
        top = over.get("protocols_DOT_wap_DOT_WAPProtocol__waptop")
        parsers.WAP_PREFIX = top.rstrip("/").encode() if top else b"/wap"
        reached = set() if rootwap else None
        bad, visited = crawl(w, crawler, part, label, root_link=(top.encode() + b"/") if top else None, reached=reached)
        if rootwap:
            # a link that is answered with some OTHER menu is not served either: the same world crawled through
            # Gopher is the reference for what can be reached (plain tree, plain names)
            ref = set()
            crawl(w, "gopher", core.Partial(), label + "|ref", reached=ref)
            ref = {re.sub(rb"/+", b"/", x) for x in ref} - {b"/", b""}
            reached = {re.sub(rb"/+", b"/", x) for x in reached} - {b"/", b""}  # (a prefix configured with a trailing slash yields /wap//x links)
            if reached != ref:
                bad.append(("unreached", "crawling via %s never reaches %r; reaches only there: %r" % (crawler, sorted(ref - reached)[:5], sorted(reached - ref)[:5]), b"<reach>"))
        part.sample({"crawl": label, "links_followed": visited}, limit=1)
        seen = set()
        for cls, det, raw in bad:
            key = "%s|%s|%s|%s" % (handlers, crawler, ascii(raw), cls)
            if key in seen:
                continue
            seen.add(key)
            part.violation(key + ("|" + repr(sorted(over.items())) if over else ""), det, {"handlers": handlers, "crawler": crawler, "names": allnames, "over": over, "rootwap": rootwap})
    finally:
        parsers.WAP_PREFIX = b"/wap"
        w.destroy()
    return part


def replay(case):
    part = core.Partial()
    w = rig.World(_tree(case["names"], case["handlers"] == "full", case.get("rootwap")), handlers=case["handlers"], cachetime=0, tag="c05r", **case.get("over", {}))
    try:
        top = case.get("over", {}).get("protocols_DOT_wap_DOT_WAPProtocol__waptop")
        parsers.WAP_PREFIX = top.rstrip("/").encode() if top else b"/wap"
        reached = set() if case.get("rootwap") else None
        bad, _ = crawl(w, case["crawler"], part, "replay", root_link=(top.encode() + b"/") if top else None, reached=reached)
        if reached is not None:
            ref = set()
            crawl(w, "gopher", core.Partial(), "replay|ref", reached=ref)
            ref = {re.sub(rb"/+", b"/", x) for x in ref} - {b"/", b""}
            reached = {re.sub(rb"/+", b"/", x) for x in reached} - {b"/", b""}  # (a prefix configured with a trailing slash yields /wap//x links)
            if reached != ref:
                bad.append(("unreached", "crawling via %s never reaches %r; reaches only there: %r" % (case["crawler"], sorted(ref - reached)[:5], sorted(reached - ref)[:5]), b"<reach>"))
    finally:
        parsers.WAP_PREFIX = b"/wap"
        w.destroy()
    return (bad[0][0], bad[0][1]) if bad else None


def run(ck):
    shards = []
    names = worlds.NAMES
    groups = core.chunks(names, 3 if ck.tier == "quick" else 1)
    # groups of names so that one bad name cannot mask the others; thorough = all names in one tree as well
    for handlers in ("default", "full"):
        for crawler in CRAWLERS:
            if handlers == "default" and crawler in ("sgopher", "https"):
                continue
            for g in groups:
                shards.append((handlers, crawler, g))
            if ck.tier == "thorough":
                for n in names:
                    shards.append((handlers, crawler, [n]))
    # a WAP prefix configured with a trailing slash, and a longer one
    for g in groups:
        for top in ("/wap/", "/m/wap"):
            shards.append(("default", "wap", g, (("protocols_DOT_wap_DOT_WAPProtocol__waptop", top),)))
    # entries named like the WAP prefix (or like its parts): /wap/wap is the WAP view of /wap, the prefix comes off once
    for handlers in ("default", "full"):
        for crawler in CRAWLERS:
            if handlers == "default" and crawler in ("sgopher", "https"):
                continue
            shards.append((handlers, crawler, [b"wap", b"m"]))
    for top in ("/wap/", "/m/wap"):
        shards.append(("default", "wap", [b"wap", b"m"], (("protocols_DOT_wap_DOT_WAPProtocol__waptop", top),)))
    for handlers in ("default", "full"):
        shards.append((handlers, "wap", [b"wap", b"m"], (("_rootwap", "/wap"),)))
    for top in ("/wap/", "/m/wap"):
        shards.append(("default", "wap", [b"wap", b"m"], (("protocols_DOT_wap_DOT_WAPProtocol__waptop", top), ("_rootwap", top.rstrip("/")))))
    p = ck.pmap(_shard, shards)
    if p.extra.get("capped"):
        ck.caps.append("crawl cap hit: %r" % p.extra["capped"])
    ck.rule = ("trees = %d names x kinds {text file, extension-less file, directory, HTML with title, mbox, Maildir, gophermap directory, .gophermap file, ZIP} plus all directory-name x child-name pairs "
               "(TAB/LF/trailing-blank names for URL-based protocols only); breadth-first crawl from the root menu through %d protocols under both handler lists, following each local link exactly as advertised; "
               "distinct = (protocol, advertised kind, response class)" % (len(worlds.NAMES), len(CRAWLERS)))
    ck.bounds = {"names": len(worlds.NAMES), "crawlers": len(CRAWLERS)}
    ck.assumptions = ["names beginning with 'URL:' are a reserved selector namespace and are not generated",
                      "search (type 7) links are not followed; Gemini/Spartan/WAP listings advertise no kind, so only success is required of their links"]

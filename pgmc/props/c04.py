"""C04 — documents are delivered byte-for-byte with truthful length and type.

E1: sizes x content classes x names x protocols x handler lists, every document
fetched through the real server and compared with the file's bytes (WAP: the
WML inverted line by line), the Gopher+ length header with the body length,
HEAD with GET, the advertised MIME type with an independent reading of
conf/mime.types.  E2: the file object handed out by the VFS seam answers each
read(n) with n, n-1 or 1 bytes — all patterns within the deviation bound.
"""
from __future__ import annotations

import gzip
import html
import os
import re

from .. import core, envx, parsers, rig

ID = "C04"

SIZES = [0, 1, 2, 4095, 4096, 4097, 8191, 8192, 8193, 12288, 65537]
BLOCK = 4096


def content(cls, size, filler):
    if cls == "zero":
        return b"\0" * size
    if cls == "ff":
        return b"\xff" * size
    if cls == "cycle":
        return bytes((i + filler) % 256 for i in range(size))
    if cls == "lf":
        unit = b"line of text %d\n" % filler
    elif cls == "crlf":
        unit = b"dos line %d\r\n" % filler
    elif cls == "mixed":
        unit = b"a\rb\r\nc\n\r\n\n\rd %d\n" % filler
    elif cls == "badutf8":
        unit = b"caf\xe9 \xc3\x28 \xf0\x9f ok\xed\xa0\x80 %d\n" % filler
    elif cls == "trailing":
        unit = b"trail   \n\t\n  lead\n\n\nx \t \n%d\n" % filler
    elif cls == "markup":
        unit = b"<p>&amp; \"q\" 'a' </p>\n<p>\n</p>\n<p>x</wml> $(v) %d\n" % filler
    elif cls == "nonl":
        unit = b"no newline at end %d\nlast" % filler
        return (unit * (size // len(unit) + 1))[: max(0, size - 4)] + (b"last" if size >= 4 else b"l" * size)
    else:
        raise ValueError(cls)
    return (unit * (size // len(unit) + 1))[:size]


CLASSES = ["zero", "ff", "cycle", "lf", "crlf", "mixed", "badutf8", "trailing", "markup", "nonl"]

NAMES = [b"dump.bz2", b"x.xz", b"page.html.br", b"plain.txt", b"sp ace.txt", b"a&b?c#d.txt", b"%41.txt", b"\xae.txt", b"noext", b"x.html", b"x.bin", b"x.gif", b"x.txt.gz", b"UP.TXT", b"x.tar.gz", b"x.tgz", b"dot.in.name.txt", b"x.txt.bz2", b"x.unknownext", b"x.pdf.Z",
         # names that look like URLs with a scheme, a query or a fragment to anything that parses them as one
         b"data:logo.gif", b"Data:report.html", b"x:.html", b"re:faq#1.html", b"http:page.html", b"what?.gif", b"semi;colon.html", b"mailto:me@x.txt",
         # extensions that only a site's own tables know
         b"meeting.pgnote", b"blob.pgdat",
         # names near the file system's limit (255 bytes): name + ".abstract" / ".3d" no longer fits, the name itself does
         b"L" * 243 + b".txt", b"M" * 249 + b".gif", b"N" * 251 + b".txt"]

PROTOS = ["gopher", "gopherp", "http", "http_head", "wap", "gemini", "spartan", "sgopher", "sgopherp", "https"]

# --- independent reading of the configured MIME tables --------------------------------

_mime = {}
VARIANT_EXTRA = b"application/x-bzip2 bz2\napplication/x-xz xz\napplication/x-site-br br\n"


def _mime_tables(variant=False):
    if variant not in _mime:
        ext = {}
        with open(rig.MIME_TYPES, "rb") as f:
            for ln in f:
                ln = ln.split(b"#")[0].split()
                if len(ln) >= 2:
                    for e in ln[1:]:
                        ext[b"." + e] = ln[0].decode()
        # the [pygopherd] encoding option: Python's defaults plus .bz2 and .tal
        enc = {b".gz": "gzip", b".Z": "compress", b".bz2": "bzip2", b".xz": "xz", b".br": "br", b".tal": "tal.TALFileHandler"}
        if variant:
            # a site that REPLACES the encodings table and gives the other suffixes types of their own
            enc = {b".gz": "gzip"}
            for ln in VARIANT_EXTRA.splitlines():
                t, e = ln.split()
                ext[b"." + e] = t.decode()
            # z-site.types, then (listed later, so it wins) a-local.types
            ext[b".pgnote"], ext[b".pgdat"] = "application/x-first", "application/x-first"
            ext[b".pgnote"], ext[b".gif"] = "text/x-second", "image/x-local-gif"
        suffix = {b".svgz": b".svg.gz", b".tgz": b".tar.gz", b".taz": b".tar.gz", b".tz": b".tar.gz", b".tbz2": b".tar.bz2", b".txz": b".tar.xz"}
        _mime[variant] = (ext, enc, suffix)
    return _mime[variant]


def ref_mime(name: bytes, variant=False):
    """-> (type of the data, encoding) per mime.types + encoding map; default text/plain."""
    ext, enc, suffix = _mime_tables(variant)
    base, e = os.path.splitext(name)
    while e in suffix:
        base, e = os.path.splitext(base + suffix[e])
    encoding = None
    if e in enc:
        encoding = enc[e]
        base, e = os.path.splitext(base)
    t = ext.get(e) or ext.get(e.lower())
    return t, encoding


def expected_type(name: bytes, handlers: str):
    variant = handlers == "variant"
    t, encoding = ref_mime(name, variant)
    if encoding:
        if handlers == "full" and encoding in ("gzip", "bzip2", "compress") and t:
            return t, True  # decompressed on the fly
        return "application/octet-stream", False
    return t or "text/plain", False


# --- WAP inversion ---------------------------------------------------------------------

WML_HEAD = b'<?xml version="1.0"?>\n<!DOCTYPE wml PUBLIC "-//WAPFORUM//DTD WML 1.1//EN"\n"http://www.wapforum.org/DTD/wml_1.1.xml">\n<wml>\n<card id="index" title="Text File" newcontext="true">\n<p>\n'
WML_TAIL = b"</p>\n</card>\n</wml>\n"


def wml_to_lines(body: bytes):
    # one card holding (after optional soft-key elements) the paragraphs of the text
    m = re.match(rb'(?s)^<\?xml[^>]*\?>\s*<!DOCTYPE wml[^>]*>\s*<wml>\s*<card\b[^>]*>\s*(?:<do\b[^>]*>.*?</do>\s*)*<p>\n(.*)</p>\s*</card>\s*</wml>\s*$', body)
    if not m:
        raise ValueError("not the text-file WML card: %r ... %r" % (body[:60], body[-40:]))
    inner = m.group(1)
    inner = inner.replace(b"</p>\n<p>", b"\n")
    if b"<" in inner or b">" in inner:
        raise ValueError("raw markup character inside converted text: %r" % inner[:200])
    lines = inner.split(b"\n")
    if lines and lines[-1] == b"":
        lines.pop()
    return [html.unescape(l.decode("utf-8", "surrogateescape")).encode("utf-8", "surrogateescape") for l in lines]


def source_lines(data: bytes):
    lines = data.split(b"\n")
    if lines and lines[-1] == b"":
        lines.pop()
    return [l.decode("utf-8", "surrogateescape").rstrip().encode("utf-8", "surrogateescape") for l in lines]


# --- one document through one protocol ------------------------------------------------


def fetch_and_judge(w, handlers, name: bytes, data: bytes, proto: str, get_headers=None):
    sel = b"/" + name
    req, tls = rig.request(proto, sel)
    r = w.serve(req, tls)
    etype, decompress = expected_type(name, handlers)
    want = data
    if decompress:
        try:
            if name.endswith((b".gz", b".tgz")):
                want = gzip.decompress(data)
            elif name.endswith(b".bz2"):
                import bz2

                want = bz2.decompress(data)
            else:
                want = None
        except Exception:
            want = None
    bad = []
    if r.internal_error:
        return r, [("error", r.describe_error())]
    fam = proto.lstrip("s") if proto.startswith(("sg",)) else proto
    if fam in ("gopher",):
        body = r.out
        mime = None
    elif fam == "gopherp":
        m = parsers.GP_STATUS.match(r.out)
        if not m or m.group(1) != b"+":
            return r, [("status", "Gopher+ reply %r" % r.out[:60])]
        body = r.out[m.end():]
        mime = None
        if m.group(2) not in (b"-1", b"-2"):
            if int(m.group(2)) != len(body):
                bad.append(("length", "Gopher+ header +%s but %d body bytes follow" % (m.group(2).decode(), len(body))))
    elif fam in ("http", "https", "http_head", "wap"):
        try:
            status, headers, body = parsers.split_http(r.out)
        except ValueError as e:
            return r, [("status", str(e))]
        if status != 200 or b"Not Found" in r.out[:30]:
            return r, [("status", "HTTP reply %r" % r.out[:60])]
        mime = dict((k.lower(), v) for k, v in headers).get(b"content-type", b"").decode()
        if fam == "http_head":
            if body:
                bad.append(("head-body", "HEAD returned %d body bytes" % len(body)))
            if get_headers is not None and headers != get_headers:
                bad.append(("head-headers", "HEAD headers %r differ from GET headers %r" % (headers, get_headers)))
            body = None
        elif fam == "wap":
            if etype == "text/plain":
                if mime != "text/vnd.wap.wml":
                    bad.append(("mime", "WAP text document advertised as %r" % mime))
                try:
                    got = wml_to_lines(body)
                    if want is not None and got != source_lines(want):
                        bad.append(("wml-lossy", "WML lines do not invert to the source lines: %r vs %r" % (got[:5], source_lines(want)[:5])))
                except ValueError as e:
                    bad.append(("wml-shape", str(e)))
                body = None
                mime = None
    else:  # gemini, spartan
        m = re.match(rb"^(\d+) ([^\r\n]*)\r\n", r.out)
        if not m or m.group(1)[:1] != b"2":
            return r, [("status", "%s reply %r" % (fam, r.out[:60]))]
        mime = m.group(2).decode()
        body = r.out[m.end():]
    if body is not None and want is not None and body != want:
        i = next((j for j in range(min(len(body), len(want))) if body[j] != want[j]), min(len(body), len(want)))
        bad.append(("body", "%d body bytes, file has %d; first difference at offset %d (%r vs %r)" % (len(body), len(want), i, body[i:i + 12], want[i:i + 12])))
    if mime is not None and mime != etype:
        bad.append(("mime", "advertised %r, the configured tables give %r" % (mime, etype)))
    return r, bad


def _pack(name, data):
    if name.endswith((b".gz", b".tgz")):
        return gzip.compress(data, mtime=0)
    if name.endswith(b".bz2"):
        import bz2

        return bz2.compress(data)
    return data


def _make_world(handlers, spec=None):
    if handlers == "symroot":
        # the configured document root is a symbolic link (/var/gopher -> /srv/data/gopher), inside a linked directory
        d = rig.fresh_dir("c04sym")
        os.makedirs(os.path.join(d, "srv", "data", "gopher"))
        os.symlink(os.path.join("srv", "data"), os.path.join(d, "var"))
        os.symlink("gopher", os.path.join(d, "var", "public"))
        w = rig.World({}, handlers="default", cachetime=0, root=os.path.join(d, "var", "public"), tag="c04")
        w.extra_dir = d
        return w
    if handlers != "variant":
        return rig.World(spec or {}, handlers=handlers, cachetime=0, tag="c04")
    d = rig.fresh_dir("c04mime")
    import os as _os

    # two tables, listed in an order that is not their alphabetical order; the one listed later wins where they disagree
    mt = _os.path.join(d, "z-site.types")
    mt2 = _os.path.join(d, "a-local.types")
    with open(rig.MIME_TYPES, "rb") as f:
        base = f.read()
    with open(mt, "wb") as f:
        f.write(base + b"\n" + VARIANT_EXTRA + b"application/x-first pgnote pgdat\n")
    with open(mt2, "wb") as f:
        f.write(b"text/x-second pgnote\nimage/x-local-gif gif\n")
    return rig.World(spec or {}, handlers="default", cachetime=0, tag="c04", pygopherd__mimetypes=mt + ":" + _os.path.join(d, "missing.types") + ":" + mt2, pygopherd__encoding="[('.gz', 'gzip')]")


def _headers_of(out):
    try:
        return parsers.split_http(out)[1]
    except ValueError:
        return None


def _wap_prefix_dir(w, handlers, part):
    """/wap/<x> through WAP is the WAP view of /<x> -- also when <x> itself starts with 'wap/'."""
    import os as _os

    data = b"inside the wap directory\n"
    rig.write_file(_os.path.join(w.root, "wap", "inner.txt"), data, mtime=1000000000)
    rig.write_file(_os.path.join(w.root, "wap", "wap", "deeper.bin"), b"\0\1\2", mtime=1000000000)
    for sel, want, mime in ((b"/wap/inner.txt", data, "text/vnd.wap.wml"), (b"/wap/wap/deeper.bin", b"\0\1\2", "application/octet-stream")):
        r = w.serve(*rig.request("wap", sel))
        part.evaluations += 1
        ok = not r.internal_error
        if ok:
            try:
                st, hd, body = parsers.split_http(r.out)
                ct = dict((k.lower(), v) for k, v in hd).get(b"content-type", b"").decode()
                ok = ct == mime and (body == want if mime != "text/vnd.wap.wml" else wml_to_lines(body) == source_lines(want))
            except ValueError:
                ok = False
        if not ok:
            part.violation("%s|wap|prefix-dir|%s" % (handlers, sel.decode()), "document %r fetched through WAP (request path /wap%s) is answered %r" % (sel, sel.decode(), r.out[:200]),
                           {"kind": "wapdir", "handlers": handlers})


def _shard(shard, seed, tier):
    part = core.Partial()
    handlers, items = shard
    filler = seed % 251
    w = _make_world(handlers)
    label = handlers
    if handlers == "symroot":
        handlers = "default"
    try:
        _wap_prefix_dir(w, handlers, part)
        for cls, size, name in items:
            data = content(cls, size, filler)
            if name.endswith(b".Z") and handlers in ("full", "variant"):
                continue  # no way to produce valid compress(1) data here; covered under the default list
            data = _pack(name, data)
            p = os.path.join(os.fsencode(w.root), name)
            rig.write_file(p, data, mtime=1000000000)
            get_headers = None
            for proto in PROTOS:
                if proto == "http_head":
                    r0 = w.serve(*rig.request("http", b"/" + name))
                    get_headers = _headers_of(r0.out)
                r, bad = fetch_and_judge(w, handlers, name, data, proto, get_headers)
                part.evaluations += 1
                part.transitions += len(r.writes)
                part.state(label, cls, size, name, proto)
                part.outcome(label, proto, expected_type(name, handlers), size % BLOCK == 0, tuple(b[0] for b in bad))
                for c, det in bad:
                    part.violation("%s|%s|%s|%d|%s|%s" % (label, proto, cls, size, ascii(name), c), det,
                                   {"kind": "doc", "handlers": label, "cls": cls, "size": size, "name": name, "proto": proto, "filler": filler})
            os.unlink(p)
            if len(part.samples) < 2:
                part.sample({"file": name, "class": cls, "size": size, "protocols": PROTOS, "handlers": handlers})
    finally:
        w.destroy()
        if getattr(w, "extra_dir", None):
            rig.rmtree(w.extra_dir)
    return part


# --- E2: short reads -------------------------------------------------------------------


class _ShortFile:
    def __init__(self, f, chooser):
        self._f = f
        self._ch = chooser

    def read(self, n=-1):
        if n is None or n < 0:
            return self._f.read()
        c = self._ch.choose(3, "read(%d)" % n)
        k = n if c == 0 else (n - 1 if c == 1 else 1)
        return self._f.read(max(1, k))

    def __enter__(self):
        return self

    def __exit__(self, *a):
        self._f.close()
        return False

    def __getattr__(self, name):
        return getattr(self._f, name)


_current_chooser = None
_short_installed = False


def _install_short():
    global _short_installed
    if _short_installed:
        return
    from pygopherd.handlers.base import VFS_Real

    orig = VFS_Real.open

    def open_(self, selector, mode, errors=None):
        f = orig(self, selector, mode, errors=errors) if errors is not None else orig(self, selector, mode)
        ch = _current_chooser
        if ch is not None and mode == "rb" and selector.endswith("short.bin") and type(self) is VFS_Real:
            return _ShortFile(f, ch)
        return f

    VFS_Real.open = open_
    _short_installed = True


def _shard_short(shard, seed, tier):
    global _current_chooser
    part = core.Partial()
    proto, size, bound = shard
    _install_short()
    data = content("cycle", size, seed % 251)
    w = rig.World({"short.bin": data}, handlers="default", cachetime=0, tag="c04s")
    try:
        def run(ch):
            global _current_chooser
            _current_chooser = ch
            try:
                return fetch_and_judge(w, "default", b"short.bin", data, proto)
            finally:
                _current_chooser = None

        def on_exec(ch, res):
            r, bad = res
            part.evaluations += 1
            part.transitions += len(ch.choices)
            part.state("short", proto, size, tuple(ch.choices))
            part.outcome("short", proto, size, tuple(b[0] for b in bad), ch.deviations())
            for c, det in bad:
                part.violation("short|%s|%d|%s|%s" % (proto, size, ",".join(map(str, ch.choices)), c), det + " ; read answers %r" % ch.choices,
                               {"kind": "short", "proto": proto, "size": size, "choices": list(ch.choices), "filler": seed % 251})

        n, capped = envx.explore(run, bound, on_exec)
        part.count("short_read_executions", n)
        part.sample({"short_reads": "file of %d bytes via %s, every read answered with n / n-1 / 1 bytes, <= %d deviations" % (size, proto, bound), "executions": n}, limit=1)
    finally:
        w.destroy()
    return part


def replay(case):
    global _current_chooser
    if case["kind"] == "slow":
        p = _shard_slow(case["mode"], 0, "quick")
        return (p.violations[0][0], p.violations[0][1]) if p.violations else None
    if case["kind"] == "live":
        p = _shard_live(("live", case.get("server", "thread")), 0, "quick")
        for k, det, c in p.violations:
            if c.get("sel") == case["sel"] and c.get("secure") == case["secure"]:
                return ("live", det)
        return None
    if case["kind"] == "wapdir":
        part = core.Partial()
        w = _make_world(case["handlers"])
        try:
            _wap_prefix_dir(w, case["handlers"], part)
        finally:
            w.destroy()
        return (part.violations[0][0], part.violations[0][1]) if part.violations else None
    if case["kind"] == "doc":
        w = _make_world(case["handlers"])
        try:
            name = case["name"]
            data = content(case["cls"], case["size"], case["filler"])
            data = _pack(name, data)
            rig.write_file(os.path.join(os.fsencode(w.root), name), data, mtime=1000000000)
            gh = None
            if case["proto"] == "http_head":
                gh = _headers_of(w.serve(*rig.request("http", b"/" + name)).out)
            r, bad = fetch_and_judge(w, "default" if case["handlers"] == "symroot" else case["handlers"], name, data, case["proto"], gh)
        finally:
            w.destroy()
            if getattr(w, "extra_dir", None):
                rig.rmtree(w.extra_dir)
        return bad[0] if bad else None
    _install_short()
    data = content("cycle", case["size"], case["filler"])
    w = rig.World({"short.bin": data}, handlers="default", cachetime=0, tag="c04r")
    try:
        _current_chooser = envx.Chooser(case["choices"])
        try:
            r, bad = fetch_and_judge(w, "default", b"short.bin", data, case["proto"])
        finally:
            _current_chooser = None
    finally:
        w.destroy()
    return bad[0] if bad else None


LIVE_DOCS = {
    "plain.txt": b"plain live file\n", "big.bin": bytes(range(256)) * 50, "empty.txt": b"",
    "c.txt.gz": None, "page.html.gz": None, "s.sh": ("exec", b"#!/bin/sh\necho SCRIPT-OUT\nhead -c 70000 /dev/zero | tr '\\0' 'z'\n"),
    "z.zip": None, "m.mbox": None,
}


def _shard_live(shard, seed, tier):
    """Real sockets, real TLS: every kind of document through each protocol over TLS must arrive exactly as the
    same document arrives over the plaintext twin of that protocol (the in-process TLS stand-in cannot see what is
    written to the descriptor behind the TLS layer)."""
    import socket
    import ssl
    import threading

    import pygopherd.server

    from .. import worlds

    part = core.Partial()
    root = rig.fresh_dir("c04l")
    docs = dict(LIVE_DOCS)
    docs["c.txt.gz"] = worlds.gz(b"compressed live document\n" * 300)
    docs["page.html.gz"] = worlds.gz(worlds.HTML)
    docs["z.zip"] = worlds.make_zip([("in.txt", b"member\n" * 900), ("sub/c.txt.gz", worlds.gz(b"compressed member\n" * 50))])
    docs["m.mbox"] = worlds.MBOX
    rig.build_tree(root, docs)
    config = rig.make_config(root, handlers="full")
    rig.init_mime(config)
    rig.reset_lazies()
    ctx = ssl.create_default_context(ssl.Purpose.CLIENT_AUTH)
    ctx.load_cert_chain(os.path.join(rig.REPO, "testdata", "demo.crt"), os.path.join(rig.REPO, "testdata", "demo.key"))
    skind = shard[1] if len(shard) > 1 else "thread"
    cls = pygopherd.server.ForkingTCPServer if skind == "fork" else pygopherd.server.ThreadingTCPServer
    server = cls(config, ("127.0.0.1", 0), pygopherd.server.GopherRequestHandler, context=ctx)
    server.handle_error = lambda *a: None
    server.daemon_threads = True
    marker = os.path.join(root, "..", "escaped-live-%d" % os.getpid())
    parent = rig.guard_forked(server, marker)
    # The accept loop runs in a thread of THIS process and forks its workers from it.  A worker forked while the
    # client (this thread) is inside OpenSSL inherits OpenSSL's internal locks in the locked state and hangs in its
    # own handshake -- an artefact of client and server sharing a process.  So the client starts its handshake
    # only after the fork for its connection has happened (the worker blocks peeking at the first byte anyway).
    forked = threading.Event()
    if skind == "fork":
        orig_pr = server.process_request

        def process_request(request, client_address):
            try:
                orig_pr(request, client_address)
            finally:
                if os.getpid() == parent:
                    forked.set()

        server.process_request = process_request
    t = threading.Thread(target=server.serve_forever, kwargs={"poll_interval": 0.02}, daemon=True)
    t.start()

    def ask(data, tls):
        forked.clear()
        s = socket.create_connection(server.server_address, timeout=10)
        try:
            if skind == "fork":
                forked.wait(10)
            if tls:
                c = ssl.SSLContext(ssl.PROTOCOL_TLS_CLIENT)
                c.check_hostname = False
                c.verify_mode = ssl.CERT_NONE
                s = c.wrap_socket(s)
            s.sendall(data)
            buf = b""
            while True:
                try:
                    ch = s.recv(65536)
                except (ssl.SSLError, OSError) as e:
                    return buf, "%s: %s" % (type(e).__name__, e)
                if not ch:
                    return buf, None
                buf += ch
        finally:
            s.close()

    inproc = rig.World(handlers="full", root=root, cachetime=0, tag="c04li")
    sels = [b"/plain.txt", b"/big.bin", b"/empty.txt", b"/c.txt.gz", b"/page.html.gz", b"/s.sh", b"/z.zip/in.txt", b"/z.zip/sub/c.txt.gz", b"/m.mbox|/MBOX-MESSAGE/1", b"/z.zip", b"/", b"/nope"]
    try:
        for sel in sels:
            for plain, secure in (("gopher", "sgopher"), ("gopherp", "sgopherp"), ("http", "https"), ("spartan", "gemini")):
                a, ea = ask(*rig.request(plain, sel))
                b, eb = ask(*rig.request(secure, sel))
                # ... and the bytes on a real socket are the bytes the in-process connection records
                # (order of headers and of output produced by child processes included)
                ri = inproc.serve(*rig.request(plain, sel))
                rig.reset_lazies()
                if sel not in (b"/", b"/z.zip") and not ri.internal_error and _undate(ri.out) != _undate(a):  # (menus carry the port number)
                    part.violation("live-order|%s|%s|%s" % (skind, plain, sel.decode()), "on a real socket %r via %s arrives as %r (%d bytes); the same request in process yields %r (%d bytes)" % (
                        sel, plain, a[:80], len(a), ri.out[:80], len(ri.out)), {"kind": "live", "sel": sel, "secure": secure})
                part.evaluations += 2
                part.transitions += 2
                part.state("live", skind, sel, secure)
                if secure == "gemini":
                    # no plaintext twin: the body must be the Spartan body (status lines differ by design)
                    a2 = a.split(b"\r\n", 1)[1] if b"\r\n" in a else a
                    b2 = b.split(b"\r\n", 1)[1] if b"\r\n" in b else b
                    a2, b2 = re.sub(rb"(?m)^=: ", b"=> ", a2), re.sub(rb"/GEMINI-QUERY", b"", b2)
                    same = (a[:1] == b"2") == (b[:1] == b"2") and (a[:1] != b"2" or a2 == b2)
                else:
                    same = _undate(a) == _undate(b)
                part.outcome("live", secure, same, eb is None)
                if ea or eb or not same:
                    part.violation("live|%s|%s|%s" % (skind, secure, sel.decode()), "real TLS round trip for %r via %s: %s; plaintext twin (%s) answered %r (%d bytes), over TLS %r (%d bytes)" % (
                        sel, secure, eb or ea or "answers differ", plain, a[:80], len(a), b[:80], len(b)), {"kind": "live", "sel": sel, "secure": secure, "server": skind})
    finally:
        if os.getpid() != parent:
            os._exit(0)
        server.shutdown()
        server.server_close()
        if os.path.exists(marker):
            part.violation("live|%s|worker-escaped" % skind, "a forked worker came back out of process_request() into the accept loop", {"kind": "live", "sel": b"/", "secure": "sgopher", "server": skind})
            os.unlink(marker)
        rig.reset_lazies()
        inproc.destroy()
        rig.rmtree(root)
    return part


BIG = 8_000_000
SLOW_MODES = {"fork": {}, "thread": {"servertype": "ThreadingTCPServer"}, "fork+tls": {"tls": True}, "thread+tls": {"tls": True, "servertype": "ThreadingTCPServer"},
              "fork+timeout5": {"timeout": 5}, "thread+tls+timeout5": {"tls": True, "servertype": "ThreadingTCPServer", "timeout": 5}}


def _shard_slow(shard, seed, tier):
    """Real deployments, documents of 8 MB (a file, the output of a script, a decompressed file) and a client
    that starts reading a second after it asked, through a small receive buffer: every byte still arrives, and a
    Gopher+ length is the length.  What a child process writes goes to the socket's descriptor directly."""
    import hashlib

    from .. import deploy, worlds

    part = core.Partial()
    mname = shard
    mode = SLOW_MODES[mname]
    text = (b"a line of a big compressed document %07d\n" * 1) 
    big_text = b"".join(b"line %09d of the big text\n" % i for i in range(BIG // 27))
    spec = {"huge.bin": bytes(range(256)) * (BIG // 256), "bigout.sh": ("exec", b"#!/bin/sh\nhead -c %d /dev/zero | tr '\\0' 'z'\n" % BIG), "hugec.txt.gz": worlds.gz(big_text)}
    want = {b"/huge.bin": spec["huge.bin"], b"/bigout.sh": b"z" * BIG, b"/hugec.txt.gz": big_text}
    srv = deploy.Server(spec, mode, tag="c04s")
    try:
        if not srv.started:
            part.violation("slow|%s|start" % mname, "deployment did not come up: %r" % srv.log()[-400:], {"kind": "slow", "mode": mname})
            return part
        for sel, body in want.items():
            protos = (["gopher", "http", "gopherp"] + (["sgopher", "gemini"] if mode.get("tls") else [])) if sel == b"/huge.bin" else ["gopher", "gopherp"]
            for proto in protos:
                data, tls = rig.request(proto, sel)
                got, err = srv.fetch(data, tls, pause=1.0, rcvbuf=65536, limit=60)
                part.evaluations += 1
                part.transitions += 1
                part.state("slow", mname, proto, sel)
                payload = got
                hdr = b""
                if proto == "http" and b"\r\n\r\n" in got:
                    hdr, payload = got.split(b"\r\n\r\n", 1)
                elif proto in ("gopherp", "gemini") and b"\r\n" in got:
                    hdr, payload = got.split(b"\r\n", 1)
                ok = err is None and payload == body
                if ok and proto == "gopherp" and hdr not in (b"+-2", b"+-1", b"+%d" % len(body)):
                    ok = False
                part.outcome("slow", mname, proto, sel, ok)
                if not ok:
                    part.violation("slow|%s|%s|%s" % (mname, proto, sel.decode()), "a client that reads slowly gets %d of %d bytes of %r via %s (header %r, error %s, sha1 %s vs %s); server log: %r" % (
                        len(payload), len(body), sel, proto, hdr[:60], err, hashlib.sha1(payload).hexdigest()[:10], hashlib.sha1(body).hexdigest()[:10], srv.log()[-300:]), {"kind": "slow", "mode": mname})
        if not srv.alive():
            part.violation("slow|%s|died" % mname, "the server process ended: %r" % srv.log()[-300:], {"kind": "slow", "mode": mname})
    finally:
        srv.stop()
    return part


def _undate(out):
    return re.sub(rb"Last-Modified: [^\r\n]*\r\n", b"", out)


def run(ck):
    sizes = SIZES + ([1 << 20] if ck.tier == "thorough" else [])
    items = []
    for cls in CLASSES:
        for size in sizes:
            for name in NAMES:
                items.append((cls, size, name))
    for name in NAMES:
        for cls, size in (("lf", 5), ("cycle", 4097), ("markup", 300), ("badutf8", 8192)):
            items.append((cls, size, name))
    items = list(dict.fromkeys(items))
    if ck.seed:
        import random

        random.Random(ck.seed).shuffle(items)
    shards = []
    for handlers in ("default", "full"):
        for ch in core.chunks(items, core.NPROC):
            shards.append((handlers, ch))
    vitems = [(cls, size, name) for cls, size, name in items if cls in ("lf", "cycle") and size in (5, 4097, 300, 8192)]
    for ch in core.chunks(vitems, 4):
        shards.append(("variant", ch))
        shards.append(("symroot", ch))
    ck.pmap(_shard, shards)
    bound = 2 if ck.tier == "quick" else 3
    ck.pmap(_shard_live, [("live", "thread"), ("live", "fork")])
    ck.pmap(_shard_slow, sorted(SLOW_MODES))
    ck.pmap(_shard_short, [(p, s, bound) for p in ("gopher", "gopherp", "http", "gemini", "wap") for s in (2 * BLOCK + 7, 3 * BLOCK, BLOCK - 1)])
    ck.rule = ("documents = content classes %s x sizes %s x %d names, fetched through %d protocols under both handler lists; "
               "12 kinds of object (plain, block-aligned, empty, compressed, script output, archive members, mailbox message, menus, not-found) through 4 protocol pairs over real sockets, TLS answer == plaintext answer; plus every pattern of short reads (each read(n) answered n / n-1 / 1 bytes) with <= %d deviations for 3 file sizes x 5 protocols; distinct = (handler list, protocol, expected type, block-aligned, verdict)"
               % (CLASSES, sizes, len(NAMES), len(PROTOS), bound))
    ck.bounds = {"documents": len(items), "short_read_deviations": bound}
    ck.assumptions = ["WAP text conversion is compared modulo trailing blanks of each line and the final newline (WML collapses them)",
                      "the expected MIME type is read from conf/mime.types and the configured encoding map by an independent parser; names use extensions listed there",
                      "Gopher+ markers -1/-2 are accepted as 'unknown length'"]

"""C18 — simpleTAL never lets data become markup, code or leftover state.

E1: (1) the C17 template families expanded with context values drawn from a
metacharacter alphabet: the output skeleton must equal the skeleton obtained with
inert values of the same shape unless `structure` was requested; (2) python:
expressions with a side-effect canary in every expression position, with Python
paths disabled (canary untouched) and enabled (canary hit: the test bites);
(3) TAL-free documents from a document grammar: expand(doc) is equivalent to doc
(elements, attributes, text) and expand(expand(doc)) == expand(doc);
(4) context restoration: locals, local stack, repeat stack, repeat map and
globals (minus explicit global defines and the engine-owned `attrs`) equal before
and after every expansion of the C17 families.
"""
from __future__ import annotations

import io
import itertools

from .. import core, parsers, rig, talref
from . import c17

ID = "C18"

from simpletal import simpleTAL, simpleTALES  # noqa: E402

META = ["<", ">", "&", '"', "'", "a", " ", "/", "=", ";", "\n"]


def payloads(maxlen):
    out = []
    for n in range(1, maxlen + 1):
        for c in itertools.product(META, repeat=n):
            out.append("".join(c))
    # values that look as if they had been escaped already (entity and character references), next to live markup
    # characters: "already escaped" is not a reason to let the rest of the value through
    for n in range(1, maxlen + 1):
        for c in itertools.product(TOKENS, repeat=n):
            v = "".join(c)
            if "&" in v and v not in out:
                out.append(v)
    return out


TOKENS = ["&amp;", "&#38;", "&lt;", "&quot;", "&#x22;", "&nosuch;", '"', "<b>", ">", "' on='", "a"]


# templates where a context value reaches text, an attribute, a repeat item, a define, a string: expression, a macro slot
ESC_TEMPLATES = [
    ('<div tal:content="v">x</div>', False),
    ('<div tal:replace="v">x</div>', False),
    ('<div title="t" tal:attributes="title v; id v">x</div>', False),
    ('<ul><li tal:repeat="it seq" tal:content="it">x</li></ul>', False),
    ('<p tal:define="w v" tal:content="w">x</p>', False),
    ('<p tal:content="string:[${v}] $v">x</p>', False),
    ('<a href="#" tal:attributes="href string:/p?q=${v}" tal:content="text v">x</a>', False),
    ('<div metal:define-macro="m"><span metal:define-slot="s">d</span></div><p metal:use-macro="macros/m"><b metal:fill-slot="s" tal:content="v">f</b></p>', False),
    ('<div tal:content="m/k">x</div><i tal:attributes="class m/k">y</i>', False),
    ('<div tal:omit-tag="" tal:content="v">x</div>', False),
    ('<div tal:content="structure v">x</div>', True),
    ('<div tal:replace="structure v">x</div>', True),
]


def expand_with(template, v, allow_python=0, extra=None):
    t = simpleTAL.compileHTMLTemplate(template)
    ctx = simpleTALES.Context(allowPythonPath=allow_python)
    ctx.addGlobal("v", v)
    ctx.addGlobal("seq", [v, "plain", v])
    ctx.addGlobal("m", {"k": v})
    ctx.addGlobal("macros", t.macros)
    for k, val in (extra or {}).items():
        ctx.addGlobal(k, val)
    out = io.StringIO()
    t.expand(ctx, out)
    return out.getvalue(), ctx


def check_escape(idx, payload):
    template, structure = ESC_TEMPLATES[idx]
    inert = "".join("a" if c not in "\n " else c for c in payload)
    try:
        got, _ = expand_with(template, payload)
        ref, _ = expand_with(template, inert)
    except Exception as e:  # noqa
        return ("exception", "%s: %s" % (type(e).__name__, e))
    sg, sr = parsers.skeleton(got), parsers.skeleton(ref)
    if structure:
        return None  # structure was asked for: markup in the value is the point (counted, not judged)
    if sg != sr:
        return ("markup-injected", "value %r in %r gives %r: structure %r, with inert data %r" % (payload, template, got, sg, sr))
    # the value must come back exactly as data
    evs = talref.events_of(got)
    texts = "".join(e[1] for e in evs if e[0] == "text")
    attrs = [v for e in evs if e[0] == "start" for v in e[2].values()]
    if payload not in texts and not any(payload in a for a in attrs):
        return ("value-mangled", "value %r in %r does not come back as data: %r" % (payload, template, got))
    return None


# --- python: gate ----------------------------------------------------------------------


class Canary:
    def __init__(self):
        self.hits = 0

    def hit(self):
        self.hits += 1
        return "HIT"


PY_POSITIONS = [
    '<div tal:content="python: canary.hit()">x</div>',
    '<div tal:replace="python: canary.hit()">x</div>',
    '<div tal:condition="python: canary.hit()">x</div>',
    '<div tal:repeat="it python: [canary.hit()]">x</div>',
    '<div tal:define="w python: canary.hit()">x</div>',
    '<div tal:attributes="title python: canary.hit()">x</div>',
    '<div tal:omit-tag="python: canary.hit()">x</div>',
    '<div tal:content="missing | python: canary.hit()">x</div>',
    '<div tal:content="string:${python: canary.hit()}">x</div>',
    '<div tal:content="not: python: canary.hit()">x</div>',
    '<div tal:content="exists: missing | python: canary.hit()">x</div>',
    '<div tal:content="nocall: missing | python: canary.hit()">x</div>',
    '<div tal:content="path: missing | python: canary.hit()">x</div>',
    '<div tal:content="structure python: canary.hit()">x</div>',
    '<div tal:define="global g python: canary.hit()" tal:content="g">x</div>',
    '<p metal:use-macro="python: canary.hit()">x</p>',
    '<div tal:content="  python: canary.hit()">x</div>',
    '<div tal:content="PYTHON: canary.hit()">x</div>',
    '<div tal:content="python:canary.hit()">x</div>',
    '<div tal:content="?pyvar">x</div>',
    # expressions that BIND a name while they are evaluated: the name must not survive in the caller's context
    '<div tal:content="python: (leak := canary.hit())">x</div><i tal:content="leak | string:no-leak">y</i>',
    '<div tal:condition="python: (leak := canary.hit())">x</div><i tal:content="leak | string:no-leak">y</i>',
    '<div tal:define="w python: (leak := canary.hit())">x</div><i tal:content="leak | w | string:no-leak">y</i>',
    '<ul><li tal:repeat="it python: (leak := [canary.hit()])" tal:content="python: (inner := it)">x</li></ul><i tal:content="leak | inner | it | string:no-leak">y</i>',
    '<div tal:attributes="title python: [leak := canary.hit()][0]">x</div><i tal:content="leak | string:no-leak">y</i>',
    '<div tal:content="python: (v := canary.hit())">x</div><i tal:content="v">y</i>',
]


def check_python(idx):
    tpl = PY_POSITIONS[idx]
    out = []
    for allow in (0, 1):
        c = Canary()
        leftover = None
        try:
            got, ctx = expand_with(tpl, "v", allow_python=allow, extra={"canary": c, "pyvar": "python: canary.hit()"})
            # the context the caller gets back: no locals, no scopes, the globals it put there (plus explicit global defines)
            glob = {k: v for k, v in ctx.globals.items() if k not in ("attrs", "g")}
            exp = {"v": "v", "canary": c, "pyvar": "python: canary.hit()"}
            if ctx.locals or ctx.localStack or ctx.repeatStack or ctx.repeatMap:
                leftover = "locals %r, scopes %d, repeats %r" % (dict(ctx.locals), len(ctx.localStack), sorted(ctx.repeatMap))
            elif set(glob) - set(simpleTALES.Context().globals) - {"seq", "m", "macros"} != set(exp) or any(glob[k] is not exp[k] and glob[k] != exp[k] for k in exp):
                leftover = "globals %r" % sorted((k, repr(glob[k])[:30]) for k in glob if k not in ("seq", "m", "macros") and k not in simpleTALES.Context().globals)
        except Exception as e:  # noqa
            got = "EXC %s" % e
        out.append((c.hits, got))
        if leftover:
            return ("context-not-restored", "after expanding %r (Python paths %s) the caller's context holds %s" % (tpl, "on" if allow else "off", leftover)), c.hits
    (h0, g0), (h1, g1) = out
    if h0:
        return ("python-evaluated", "with Python paths disabled %r evaluated the expression %d time(s): %r" % (tpl, h0, g0)), h1
    if "HIT" in g0:
        return ("python-result-leaked", "with Python paths disabled %r outputs %r" % (tpl, g0)), h1
    return None, h1


# --- TAL-free documents ---------------------------------------------------------------------

DOC_LEAVES = [
    "plain text", "a &amp; b &lt;c&gt; &quot;q&quot; &#65;&#x42;", "<br>", "<br/>", '<img src="a.png" alt="x &amp; y">', '<input type="checkbox" checked>', '<input disabled="disabled" value="v">',
    "<!-- a comment <b> -->", "<?php echo 1 ?>", '<a href="?a=1&amp;b=2" title=\'single "q"\'>link</a>', "<p>unclosed para", "<li>item one<li>item two", "<B CLASS=\"Up\">upper</B>",
    "<script>if (a<b && c) { x(\"</\" + \"p>\"); }</script>", "<style>p > a { color: red; content: '&'; }</style>", "<textarea>t &lt; u</textarea>", "<em></em>", "&nbsp;&copy;&eacute;",
    '<td nowrap>c</td>', "<hr>", "<option selected>o</option>",
    # markup characters spelled as numeric references (decimal, hexadecimal, mixed case), in text and in attribute values; references to references
    "&#60;b&#62;not bold&#60;/b&#62;", "&#x3c;i&#x3E;x &#38;lt; y &#38;amp; z", '<a title="&#34;&#60;&#62;&#38;&#39;" href="?x=&#38;y">t &#34;&#39;</a>', "&amp;#60; &amp;lt; &amp;amp;", "&lt;!-- not a comment --&gt; &#60;!-- nor this --&#62;",
    "&#60;script&#62;alert(1)&#60;/script&#62;", "1 &#60; 2 &#38;&#38; 3 &#62; 2",
]
DOC_WRAPS = ["%s", "<div>%s</div>", '<div class="c" id="i">%s</div>', "<ul><li>%s</li></ul>", '<p lang="en">before %s after</p>', "<table><tr><td>%s</td></tr></table>"]


def docs(tier):
    out = []
    for leaf in DOC_LEAVES:
        for w in DOC_WRAPS:
            out.append("<html><head><title>T</title></head><body>" + (w % leaf) + "</body></html>")
    pairs = itertools.product(DOC_LEAVES, repeat=2) if tier == "thorough" else itertools.product(DOC_LEAVES, DOC_LEAVES[:8])
    for a, b in pairs:
        out.append('<!DOCTYPE html PUBLIC "-//W3C//DTD HTML 4.01//EN" "http://www.w3.org/TR/html4/strict.dtd">\n<html><body><div>' + a + "</div>" + b + "</body></html>")
    for a, b, c in itertools.product(DOC_WRAPS[1:4], repeat=3):
        out.append("<html><body>" + (a % (b % (c % "deep &amp; <i>nested</i>"))) + "</body></html>")
    return list(dict.fromkeys(out))


def doc_canon(markup):
    """(elements, attributes, text) with case folding and boolean-attribute equivalence."""
    out = []
    for e in talref.events_of(markup):
        if e[0] == "start":
            out.append(("start", e[1].lower(), tuple(sorted((k.lower(), v) for k, v in e[2].items()))))
        elif e[0] == "end":
            out.append(("end", e[1].lower()))
        elif e[0] == "text":
            if out and out[-1][0] == "text":
                out[-1] = ("text", out[-1][1] + e[1])
            else:
                out.append(e)
        else:
            out.append(e)
    return out


def check_doc(doc):
    try:
        once, _ = expand_with(doc, "v")
        twice, _ = expand_with(once, "v")
    except Exception as e:  # noqa
        return ("exception", "expanding %r raised %s: %s" % (doc, type(e).__name__, e))
    a, b = doc_canon(doc), doc_canon(once)
    if a != b:
        i = next((j for j in range(min(len(a), len(b))) if a[j] != b[j]), min(len(a), len(b)))
        return ("not-equivalent", "TAL-free document %r expands to %r: event #%d %r became %r" % (doc, once, i, a[i:i + 1], b[i:i + 1]))
    if once != twice:
        return ("not-idempotent", "second expansion changes the document: %r -> %r" % (once, twice))
    return None


# --- context restoration ----------------------------------------------------------------------


def snapshot(ctx):
    g = {k: v for k, v in ctx.globals.items() if k != "attrs"}
    return (dict(ctx.locals), list(ctx.localStack), list(ctx.repeatStack), dict(ctx.repeatMap), g)


INLINE_TEMPLATES = [
    '<div tal:define="v1 s1" tal:content="structure tpl">x</div><i tal:content="v1 | string:restored">y</i>',
    '<ul><li tal:repeat="it seq2" tal:define="v1 it" tal:content="structure tpl">x</li></ul><i tal:content="v1 | it | string:restored">y</i>',
    '<div tal:define="v1 s1"><p tal:define="v2 s2" tal:replace="structure tpl">x</p><b tal:content="v2 | string:v2-gone">z</b></div><i tal:content="v1 | string:restored">y</i>',
]


SLOT_PAGE = (
    '<html><body><div metal:define-macro="box">[<span metal:define-slot="body">box default</span>|<em metal:define-slot="foot">box foot</em>]</div>\n'
    '<div metal:define-macro="footer">{<i metal:define-slot="body">FOOTER DEFAULT</i>}</div>\n'
    '%s\n<div tal:replace="structure macros/footer">x</div>\n<div tal:content="structure tpl2">y</div>\n'
    '<ul><li tal:repeat="it seq2" tal:content="structure tpl2">z</li></ul>\n<div tal:replace="structure macros/footer">x2</div>\n</body></html>')
SLOT_USES = [
    '<p metal:use-macro="macros/box"><b metal:fill-slot="body">FILLED</b></p>',
    '<p metal:use-macro="macros/box"><b metal:fill-slot="body">FILLED</b><u metal:fill-slot="foot">FOOT FILLED</u></p>',
    '<p metal:use-macro="macros/box"><b metal:fill-slot="body" tal:content="s1">FILLED</b></p>',
    '<ul><li tal:repeat="it seq2"><p metal:use-macro="macros/box"><b metal:fill-slot="body" tal:content="it">FILLED</b></p></li></ul>',
    '<p metal:use-macro="macros/box">nothing filled</p>',
]


def check_slots(use):
    """Slot fillings belong to the use-macro that carries them: a macro or a compiled template that is inserted
    later (tal:content / tal:replace with `structure`) and has a slot of the same name shows its own default."""
    globs = c17.make_globals()
    t = simpleTAL.compileHTMLTemplate(SLOT_PAGE % use)
    t2 = simpleTAL.compileHTMLTemplate('<div metal:define-macro="m2">(<u metal:define-slot="body">TPL2 DEFAULT</u>)</div><p metal:use-macro="macros2/m2">z</p>')
    ctx = simpleTALES.Context()
    for k, v in globs.items():
        ctx.addGlobal(k, v)
    ctx.addGlobal("macros", t.macros)
    ctx.addGlobal("tpl2", t2)
    ctx.addGlobal("macros2", t2.macros)
    before = snapshot(ctx)
    out = io.StringIO()
    try:
        t.expand(ctx, out)
    except Exception as e:  # noqa
        return ("exception", "%s: %s" % (type(e).__name__, e))
    text = out.getvalue()
    # after the page's own macro definitions (which show their defaults) and the use under test
    tail = text.split(use.split(">")[0].split()[0][1:] if False else "</div>\n", 2)[-1]
    if text.count("FOOTER DEFAULT") != 3:
        return ("slot-leaked", "the footer macro, inserted after %r, does not show its own default slot content three times: %r" % (use, text))
    if text.count("TPL2 DEFAULT") != 2 * (1 + 2):
        return ("slot-leaked", "a compiled template inserted after %r does not show its own default slot content: %r" % (use, text))
    if snapshot(ctx)[:4] != before[:4]:
        return ("context-not-restored", "context after expanding the slot page: %r, before: %r" % (snapshot(ctx)[:4], before[:4]))
    return None


def check_inline(template):
    """A compiled Template object in the context, expanded inline by `structure`."""
    globs = c17.make_globals()
    inner = simpleTAL.compileHTMLTemplate('<b tal:define="w1 s1" tal:content="w1">inner</b>')
    t = simpleTAL.compileHTMLTemplate(template)
    ctx = simpleTALES.Context()
    for k, v in globs.items():
        ctx.addGlobal(k, v)
    ctx.addGlobal("tpl", inner)
    before = snapshot(ctx)
    out = io.StringIO()
    try:
        t.expand(ctx, out)
    except Exception as e:  # noqa
        return ("exception", "%s: %s" % (type(e).__name__, e))
    after = snapshot(ctx)
    if before[:4] != after[:4]:
        return ("context-not-restored", "after expanding %r (a Template object expanded inline) the context is %r, it was %r" % (template, after[:4], before[:4]))
    if "restored" not in out.getvalue() or "v2-gone" not in out.getvalue() and "v2 |" in template:
        return ("local-leaked", "a local defined on the element that inlines a Template is still visible after it: %r" % out.getvalue())
    return None


def _iter_globals():
    """Things to repeat over that are not lists: fresh one-shot iterators and generators (no len())."""
    return {"it0": iter(()), "gen0": (x for x in ()), "gen2": (x for x in ("g1", "g2")), "it1": iter(["one"]), "once": c17.OneShot(), "emptystr": "", "zeroes": [0, "", None]}


ITERS = ["it0", "gen0", "gen2", "it1", "once", "emptystr", "zeroes", "seq0", "nothing", "missing | gen0"]
ITER_TEMPLATES = (
    ['<ul><li tal:repeat="x %s" tal:content="x">i</li></ul><b tal:content="x | callerlocal">after</b>' % a for a in ITERS]
    + ['<ul><li tal:repeat="x %s" tal:define="v x" tal:omit-tag="">[<i tal:content="v">i</i>]</li></ul><b tal:content="v | x | callerlocal">after</b>' % a for a in ITERS]
    + ['<div tal:repeat="o %s"><p tal:repeat="x %s" tal:content="string:$o/$x">p</p></div><b tal:content="x | o | callerlocal">after</b>' % (a, b) for a in ("seq2", "gen2", "it0") for b in ITERS]
    + ['<div tal:repeat="callerlocal %s">shadow</div><b tal:content="callerlocal">after</b>' % a for a in ITERS]
)


def check_restore(template):
    globs = c17.make_globals()
    globs.update(_iter_globals())
    t = simpleTAL.compileHTMLTemplate(template)
    ctx = simpleTALES.Context()
    for k, v in globs.items():
        ctx.addGlobal(k, v)
    ctx.addGlobal("macros", t.macros)
    ctx.pushLocals()
    ctx.setLocal("callerlocal", "mine")
    before = snapshot(ctx)
    out = io.StringIO()
    try:
        t.expand(ctx, out)
    except Exception as e:  # noqa
        return ("exception", "%s: %s" % (type(e).__name__, e))
    after = snapshot(ctx)
    if template in ITER_TEMPLATES and not out.getvalue().rstrip().endswith("mine</b>"):
        return ("local-leaked", "after a repeat the caller's own variable is shadowed: %r ends %r" % (template, out.getvalue()[-60:]))
    # explicit global defines are allowed to stay
    import re

    allowed = set(re.findall(r"global (\w+)", template))
    gb, ga = before[4], dict(after[4])
    for k in list(ga):
        if k in allowed and (k not in gb):
            del ga[k]
    if (before[0], before[1], before[2], before[3]) != (after[0], after[1], after[2], after[3]):
        return ("context-not-restored", "after expanding %r the caller's context is %r, it was %r" % (template, after[:4], before[:4]))
    if {k: id(v) for k, v in gb.items()} != {k: id(v) for k, v in ga.items() if k in gb} or set(ga) - set(gb):
        return ("globals-changed", "after expanding %r globals differ: added %r, changed %r" % (template, sorted(set(ga) - set(gb)), [k for k in gb if k in ga and ga[k] is not gb[k]]))
    return None


# --- the python: switch as the server applies it (handlers/tal.py), along histories of configurations -------------

GATE_SETTINGS = ["true", "absent", "false", "no", "0", "off", "OFF", "False"]  # every spelling of "false" the configuration parser documents


def check_gate_history(hist):
    """Serve the same TAL page under a sequence of configurations in ONE process; whenever
    the configuration in force disables Python paths the expression must not run."""
    import os

    base = rig.fresh_dir("c18g")
    canary = os.path.join(base, "canary")
    tpl = ('<html><body><p tal:content="python: open(%r, \'a\').write(\'x\')">x</p><i tal:condition="python: open(%r, \'a\').write(\'y\')">y</i></body></html>\n' % (canary, canary)).encode()
    bad = None
    try:
        for step, setting in enumerate(hist):
            over = {} if setting == "absent" else {"handlers_DOT_tal_DOT_TALFileHandler__allowpythonpath": setting}
            w = rig.World({"t.html.tal": tpl}, handlers="full", cachetime=0, tag="c18w", **over)
            try:
                size0 = os.path.getsize(canary) if os.path.exists(canary) else 0
                r = w.serve(*rig.request("gopher", "/t.html.tal"))
                size1 = os.path.getsize(canary) if os.path.exists(canary) else 0
            finally:
                w.destroy()
            if r.internal_error:
                bad = ("error", "%s under allowpythonpath=%s" % (r.describe_error(), setting))
                break
            disabled = setting.lower() in ("false", "no", "0", "off")
            if disabled and size1 != size0:
                bad = ("python-evaluated", "configuration history %r: with allowpythonpath=%s (step %d) the python: expressions of the page were evaluated" % (list(hist), setting, step))
                break
            if not disabled and size1 == size0:
                bad = ("gate-not-biting", "with allowpythonpath=%s the expression did not run: the test proves nothing" % setting)
                break
    finally:
        rig.rmtree(base)
    return bad


def _shard(shard, seed, tier):
    part = core.Partial()
    kind, items = shard
    for item in items:
        if kind == "slots":
            bad = check_slots(item)
            part.state("slots", item)
            part.outcome("slots", bad[0] if bad else "")
            key = "slots|%s" % item
            case = {"kind": "slots", "use": item}
        elif kind == "inline":
            bad = check_inline(item)
            part.state("inline", item)
            part.outcome("inline", bad[0] if bad else "")
            key = "inline|%s" % item
            case = {"kind": "inline", "template": item}
        elif kind == "gate":
            bad = check_gate_history(item)
            part.state("gate", item)
            part.outcome("gate", item[-1], bad[0] if bad else "")
            key = "gate|%s" % ">".join(item)
            case = {"kind": "gate", "hist": list(item)}
            part.sample({"allowpythonpath_history": list(item)}, limit=1)
        elif kind == "esc":
            idx, p = item
            bad = check_escape(idx, p)
            part.state("esc", idx, p)
            part.outcome("esc", idx, bad[0] if bad else "", ESC_TEMPLATES[idx][1])
            key = "esc|%d|%s" % (idx, ascii(p))
            case = {"kind": "esc", "idx": idx, "p": p}
            part.sample({"escaping": ESC_TEMPLATES[idx][0], "value": p}, limit=1)
        elif kind == "py":
            bad, h1 = check_python(item)
            part.state("py", item)
            part.outcome("py", item, bad[0] if bad else "", h1 > 0)
            if h1 == 0 and item not in (17, 19):
                part.count("python_positions_not_biting")
            key = "py|%d" % item
            case = {"kind": "py", "idx": item}
            part.sample({"python_gate": PY_POSITIONS[item], "hits_when_enabled": h1}, limit=1)
        elif kind == "doc":
            bad = check_doc(item)
            part.state("doc", item)
            part.outcome("doc", bad[0] if bad else "", item.count("<") // 4)
            key = "doc|%s" % item
            case = {"kind": "doc", "doc": item}
            part.sample({"tal_free_document": item}, limit=1)
        else:
            bad = check_restore(item)
            part.state("ctx", item)
            part.outcome("ctx", bad[0] if bad else "", item.count("tal:"))
            key = "ctx|%s" % item
            case = {"kind": "ctx", "template": item}
        part.evaluations += 1
        part.transitions += 2
        if bad:
            part.violation(key + "|" + bad[0], bad[1], case)
    return part


def replay(case):
    if case["kind"] == "esc":
        return check_escape(case["idx"], case["p"])
    if case["kind"] == "py":
        return check_python(case["idx"])[0]
    if case["kind"] == "doc":
        return check_doc(case["doc"])
    if case["kind"] == "gate":
        return check_gate_history(tuple(case["hist"]))
    if case["kind"] == "inline":
        return check_inline(case["template"])
    if case["kind"] == "slots":
        return check_slots(case["use"])
    return check_restore(case["template"])


def run(ck):
    ps = payloads(3 if ck.tier == "thorough" else 2)
    esc = [(i, p) for i in range(len(ESC_TEMPLATES)) for p in ps]
    dl = docs(ck.tier)
    ctx_t = list(dict.fromkeys(c17.single_templates(ck.tier) + c17.nested_templates(ck.tier) + c17.metal_templates()))
    if ck.tier == "quick":
        ctx_t = ctx_t[::3] + c17.nested_templates(ck.tier) + c17.metal_templates()
    ctx_t = ctx_t + ITER_TEMPLATES
    gates = [h for n in (1, 2, 3) for h in itertools.product(GATE_SETTINGS[:3] if n == 3 else GATE_SETTINGS, repeat=n)]
    shards = [("inline", INLINE_TEMPLATES), ("slots", SLOT_USES)] + [("gate", ch) for ch in core.chunks(gates, 8)] + [("esc", ch) for ch in core.chunks(esc, core.NPROC)] + [("py", list(range(len(PY_POSITIONS))))] + [("doc", ch) for ch in core.chunks(dl, core.NPROC)] + [("ctx", ch) for ch in core.chunks(ctx_t, core.NPROC * 2)]
    p = ck.pmap(_shard, shards)
    nb = p.extra.get("python_positions_not_biting", 0)
    if nb:
        ck.notes.append("%d python: positions were not evaluated even with Python paths enabled (they prove nothing about the gate)" % nb)
    ck.rule = ("(1) %d escaping templates x all values of <= %d characters over %r and of as many tokens over entity/character references mixed with quotes and tags (TOKENS); (2) %d positions of a python: expression with a side-effect canary, Python paths off and on; (3) %d TAL-free documents from a grammar of %d leaves x %d wrappers, pairs and three-deep nestings; "
               "(4) context snapshot before/after %d templates of the C17 families; (5) a TAL page with side-effecting python: expressions served by the real server under every history of <= 3 allowpythonpath settings in one process; distinct = (part, template/position, verdict)" % (len(ESC_TEMPLATES), 3 if ck.tier == "thorough" else 2, META, len(PY_POSITIONS), len(dl), len(DOC_LEAVES), len(DOC_WRAPS), len(ctx_t)))
    ck.bounds = {"payload_length": 3 if ck.tier == "thorough" else 2, "documents": len(dl), "context_templates": len(ctx_t)}
    ck.assumptions = ["HTML boolean attributes x and x=\"x\" are equivalent; element and attribute names are case-insensitive; the engine-owned builtin 'attrs' is not a caller variable",
                      "templates asking for `structure` are expanded and counted but not judged for injected markup"]

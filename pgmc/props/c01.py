"""C01 — nothing outside the document root is ever read, listed, run or revealed.

E1 enumeration of request lines (wrappers x encodings x paths) x handler lists x
working directories, each request served twice on the same root with two
different states of the world outside it.  Oracles: (1) non-interference: the two
responses are byte-identical; (2) monitor: every file-system object actually
reached by an open/listdir/stat/exec during the request lies under the root or
in a computed allow-list, and the canary planted outside never shows up;
(3) requests that try to climb out are answered as not-found.
"""
from __future__ import annotations

import os
import re
import sys
import sysconfig
import tempfile

from .. import alphabet, core, monitor, parsers, rig, worlds
from .c03 import FAMILY_OF_CLASS, _norm

ID = "C01"

CANARY = b"CANARY-OUTSIDE-7f3a"

OUT_MBOX = (
    b"From eve@example.com Thu Jan  1 00:00:01 2004\nFrom: eve@example.com\nSubject: " + CANARY + b" subject\n\n" + CANARY + b" body\n"
)


def outside_spec(state):
    """What lives next to / above the root and in the working directory."""
    if state == "A":
        return {
            "secret": CANARY + b" secret A\n",
            "outside.txt": CANARY + b" outside A\n",
            "f.txt": CANARY + b" shadow of f.txt\n",
            "g.txt": CANARY + b" g\n",
            "sub": {"g.txt": CANARY + b" shadow of zip member\n"},
            "m.mbox": OUT_MBOX,
            "md": {"cur": {"9:2,S": b"Subject: " + CANARY + b"\n\nx\n"}, "new": {}, "tmp": {}},
            "s.sh": ("exec", b"#!/bin/sh\necho " + CANARY + b"\n"),
            "a": {"f.txt": CANARY + b" a/f\n"},
            "x": CANARY + b" x exists outside\n",
            "1": {"f.txt": CANARY + b"\n"},
            "z.zip": worlds.make_zip([("f.txt", CANARY + b" zipped\n"), ("secret", CANARY)]),
            "inner.zip": worlds.make_zip([("i.txt", CANARY + b" inner\n")]),
            "secret.abstract": CANARY + b" abstract of secret\n",
            "i.txt": CANARY + b" i\n",
            "gophermap": b"i" + CANARY + b"\tfake\t(NULL)\t0\n",
            ".names": b"Name=" + CANARY + b"\nPath=/secret\nType=0\n",
            # siblings whose names merely *start* like the root (path = root + selector)
            "rootURL:http:": {"example.com": CANARY + b" prefix sibling\n", "example.com.abstract": CANARY + b" abstract\n"},
            "rootx": {"f.txt": CANARY + b"\n"},
            "root-private": {"secret.txt": CANARY + b"\n"},
            "root.abstract": CANARY + b" root abstract\n",
        }
    return {"other.txt": b"state B\n", "x": {}}


LOCATIONS = ["site", "sib", ""]  # parent of root, sibling of parent, grandparent (= base)


def _build_outside(base, state):
    for loc in LOCATIONS:
        d = os.path.join(base, loc) if loc else base
        os.makedirs(d, exist_ok=True)
        # remove everything except the root's parent chain
        for name in os.listdir(d):
            p = os.path.join(d, name)
            if p in (os.path.join(base, "site"), os.path.join(base, "sib"), os.path.join(base, "site", "root")):
                continue
            if os.path.isdir(p) and not os.path.islink(p):
                rig.rmtree(p)
            else:
                os.unlink(p)
        rig.build_tree(d, outside_spec(state))


_ALLOW_PREFIX = None


def _allow_prefixes():
    global _ALLOW_PREFIX
    if _ALLOW_PREFIX is None:
        pre = set()
        for k in ("stdlib", "platstdlib", "purelib", "platlib"):
            p = sysconfig.get_paths().get(k)
            if p:
                pre.add(os.path.realpath(p))
        pre.add(os.path.realpath(sys.prefix))
        pre.add(os.path.realpath(sys.base_prefix))
        pre.add(os.path.realpath(rig.REPO))
        pre.add(os.path.realpath(os.path.dirname(os.path.dirname(os.path.abspath(__file__)))))  # the harness itself
        pre.add("/usr/share/zoneinfo")
        _ALLOW_PREFIX = tuple(sorted(pre))
    return _ALLOW_PREFIX


ALLOW_EXACT = {"/etc/localtime", "/dev/null", os.path.realpath(rig.MIME_TYPES), "/etc/mime.types"}
ALLOW_EXEC = {"zcat", "bzcat"}


def judge_events(events, root, cwd, scratch):
    """-> list of (class, detail) for events that reach outside the root."""
    bad = []
    rroot = os.path.realpath(root)
    tmpd = os.path.realpath(tempfile.gettempdir())
    for ev in events:
        kind = ev[0]
        if kind == "exec":
            exe = ev[1]
            if isinstance(exe, bytes):
                exe = os.fsdecode(exe)
            argv0 = ev[2][0] if len(ev) > 2 and ev[2] else exe
            if isinstance(argv0, bytes):
                argv0 = os.fsdecode(argv0)
            prog = exe or argv0
            if prog in ALLOW_EXEC:
                continue
            tgt = monitor.reached(prog, cwd)
            if tgt == rroot or tgt.startswith(rroot + "/"):
                continue
            bad.append(("exec-outside", "process launch %r (reaches %s)" % (prog, tgt)))
            continue
        path = ev[1]
        if path is None or kind == "stat":
            # a stat opens, lists, runs and reveals nothing by itself: whether its
            # result leaks is decided by the non-interference oracle
            continue
        tgt = monitor.reached(path, cwd)
        if tgt == rroot or tgt.startswith(rroot + "/"):
            continue
        if tgt in ALLOW_EXACT:
            continue
        if any(tgt == p or tgt.startswith(p + "/") for p in _allow_prefixes()):
            continue
        # the harness's own descriptor scratch files and the server's own temp files
        if os.path.dirname(tgt) in (scratch, tmpd) or tgt in (scratch, tmpd):
            continue
        bad.append((kind + "-outside", "%s of %r from cwd %s reaches %s" % (kind, path, cwd, tgt)))
    return bad


def _requests(tier):
    out = []
    if tier == "thorough":
        plist = alphabet.paths(2, 3)
    else:
        plist = alphabet.paths(2, 2) + alphabet.paths(0, 3, core=[b"a", b"..", b".", b"", b"secret", b"z.zip", b"m.mbox", b"sub"])
    extra = [
        b"/z2.zip/pub", b"/z2.zip/pub/inner.zip", b"/z2.zip/pub/inner.zip/i.txt", b"/z2.zip/pub/.cache.pygopherd.zip3.inner.zip",
        b"/z.zip/inner.zip", b"/z.zip/inner.zip/i.txt", b"/z.zip/sub/inner.zip/i.txt", b"/z.zip/inner.zip/../secret", b"/gm2", b"/gm2/", b"/1/gm2",
        b"/z.zip/m.mbox", b"/z.zip/../secret", b"/z.zip/sub/../../secret", b"/z.zip/secret", b"/z.zip/s.sh", b"/z.zip/p.pyg", b"/z.zip/md",
        b"/m.mbox|/MBOX-MESSAGE/1", b"/../m.mbox|/MBOX-MESSAGE/1", b"/../md|/MAILDIR-MESSAGE/1", b"/secret|/MBOX-MESSAGE/1",
        b"/a/../../secret", b"/a/..\\..\\secret", b"/a\\..\\..\\secret", b"/..%2fsecret", b"/%2e%2e/secret", b"/1/../secret", b"/1/1/../secret",
        b"/URL:http://h/../../secret", b"URL:file:///etc/passwd", b"/s.sh|../secret", b"/s.sh?../secret", b"/t.html.tal/../secret",
        b"/gm/../../secret", b"/.../secret", b"/\xe2\x80\xa5/secret", b"/a/\xef\xbc\x8e\xef\xbc\x8e/\xef\xbc\x8e\xef\xbc\x8e/secret", b"/a\xef\xbc\x8f..\xef\xbc\x8f..\xef\xbc\x8fsecret",
        b"/\xef\xbc\x8e./secret", b"x/f.txt", b"x/../secret", b"URL:http:/example.com", b".abstract", b"-private/secret.txt", b"/..", b"/../", b"/../.", b"/./../secret", b"//secret", b"/\\secret", b"/a/./f.txt",
        # text after ? or | in a selector of an executable: arguments, never a command line
        b"/ns.sh", b"/ns.sh?x;cat secret ../secret outside.txt ../outside.txt */secret", b"/ns.sh|x;cat secret ../secret outside.txt ../outside.txt", b"/ns.sh?$(cat ../secret secret)", b"/ns.sh|`cat ../secret secret`",
        b"/s.sh?x;cat secret ../secret outside.txt", b"/s.sh|$(cat ../secret)", b"/bad.sh?;cat ../secret secret", b"/p.pyg|;cat ../secret", b"/s.sh?-c cat${IFS}../secret", b"/ns.sh?x\ncat ../secret",
        b"/a//f.txt", b"/a/.\\f.txt", b"/a\\\\f.txt", b"/f.txt\0", b"/\0/../secret", b"/secret\0.txt", b"/..\0",
    ]
    plist = list(dict.fromkeys(plist + extra))
    for p in plist:
        for w in alphabet.WRAPPERS:
            for enc in alphabet.ENCODINGS:
                if enc in ("double", "raw") and w not in ("http", "gemini", "spartan"):
                    continue
                rq = alphabet.wrap(w, p, enc)
                if rq is None:
                    continue
                out.append((w, enc, p, rq[0], rq[1]))
    return out


def _family(w):
    w = w.lstrip("s") if w.startswith("sg") else w
    if w.startswith("gopherp"):
        return "gopherp"
    if w.startswith("gopher"):
        return "gopher"
    if w in ("http", "https", "http_head", "http_rel"):
        return "http"
    if w == "spartan_rel":
        return "spartan"
    return w


def _is_url_selector(sel: bytes):
    return bool(re.match(rb"^/?URL:.+://", sel, re.S))


class _Env:
    def __init__(self, handlers, cwdname):
        self.base = rig.fresh_dir("c01")
        self.root = os.path.join(self.base, "site", "root")
        os.makedirs(os.path.join(self.base, "sib"))
        spec = worlds.standard_spec(full=True)
        # executables the kernel refuses to run directly (no #! line; a line that names no interpreter)
        spec["ns.sh"] = ("exec", b"echo NO-SHEBANG-RAN\ncat secret ../secret outside.txt ../outside.txt 2>/dev/null\n")
        spec["bad.sh"] = ("exec", b"#!/no/such/interpreter\necho never\n")
        inner = worlds.make_zip([("i.txt", b"inner member\n")])
        spec["z.zip"] = worlds.make_zip([("f.txt", b"zip member f\n"), ("sub/g.txt", b"zip member g\n"), ("m.mbox", worlds.MBOX), ("inner.zip", inner), ("sub/inner.zip", inner)])
        # an archive in an archive, next to a member named like the index cache of the inner one (what zipping up a
        # served directory produces), stamped later than the inner archive
        import io
        import zipfile

        buf = io.BytesIO()
        with zipfile.ZipFile(buf, "w") as z:
            for name, data, date in (("pub/inner.zip", inner, (2004, 1, 1, 0, 0, 0)), ("pub/.cache.pygopherd.zip3.inner.zip", b"not a shelf", (2005, 1, 1, 0, 0, 0)),
                                     ("pub/.cache.pygopherd.zip3.inner.zip.dat", b"x", (2005, 1, 1, 0, 0, 0)), ("pub/.cache.pygopherd.zip3.inner.zip.dir", b"", (2005, 1, 1, 0, 0, 0)), ("pub/readme.txt", b"r\n", (2004, 1, 1, 0, 0, 0))):
                zi = zipfile.ZipInfo(name, date_time=date)
                zi.external_attr = 0o100644 << 16
                z.writestr(zi, data)
        spec["z2.zip"] = buf.getvalue()
        # content that points outside: link targets the selector filter would refuse
        spec["gm2"] = {"gophermap": b"0Up\t/../secret\n0Rel\t../secret\n1Dir\t/../\n0Dots\t/a/../../secret\n0Bs\t/..\\secret\n"}
        spec[".links"] = b"Name=Climb\nType=0\nPath=../secret\n\nName=Climb2\nType=0\nPath=/../secret\n"
        rig.build_tree(self.root, spec)
        self.world = rig.World(handlers=handlers, root=self.root, tag="c01cfg")
        self.cwd = {"parent": os.path.join(self.base, "site"), "sibling": os.path.join(self.base, "sib"), "slash": "/"}[cwdname]
        self.state = None
        self.scratch = os.path.realpath(rig.scratch_root())

    def set_state(self, state):
        if state != self.state:
            _build_outside(self.base, state)
            self.state = state

    def outside_digest(self):
        import hashlib

        h = hashlib.sha1()
        for loc in LOCATIONS:
            d = os.path.join(self.base, loc) if loc else self.base
            for name in sorted(os.listdir(d)):
                p = os.path.join(d, name)
                if p in (os.path.join(self.base, "site"), os.path.join(self.base, "sib"), self.root):
                    continue
                h.update(name.encode())
                if os.path.isdir(p):
                    h.update(rig.tree_digest(p).encode())
                else:
                    with open(p, "rb") as f:
                        h.update(f.read())
        return h.hexdigest()

    def destroy(self):
        self.world.destroy()
        rig.rmtree(self.base)


def _serve_monitored(env, data, tls):
    old = os.getcwd()
    os.chdir(env.cwd)
    rig.reset_lazies()
    try:
        monitor.start()
        try:
            r = env.world.serve(data, tls)
        finally:
            ev = monitor.stop()
    finally:
        os.chdir(old)
    return r, ev


def _judge(env, w, p, data, tls, rA, evA, rB, evB):
    bad = []
    if _norm(rA.out) != _norm(rB.out):
        bad.append(("interference", "response depends on the world outside the root: %r vs %r" % (rA.out[:200], rB.out[:200])))
    for r in (rA, rB):
        if CANARY in r.out:
            bad.append(("canary", "bytes planted outside the root appear in the response: %r" % r.out[:200]))
            break
    for ev in (evA, evB):
        for cls, det in judge_events(ev, env.root, env.cwd, env.scratch):
            bad.append((cls, det))
            break
    sel = alphabet.decoded_selector(w, p)
    fam = FAMILY_OF_CLASS.get(rA.proto)
    if fam and alphabet.tries_to_climb(sel) and not rA.internal_error:
        cls = parsers.classify(fam, rA.out)[0]
        if cls != "notfound":
            if _is_url_selector(sel) or (re.match(rb"^/./", sel) and _is_url_selector(sel[2:])):
                # the redirect page: the multiplexer's one stat precedes handler selection,
                # nothing may be opened, listed or run
                opened = [e for e in evA if e[0] != "stat"]
                if opened:
                    bad.append(("url-touches-fs", "URL: selector answered with a page but the request opened %r" % (opened[:3],)))
            else:
                bad.append(("climb-not-notfound", "selector %r tries to climb out but was answered %s: %r" % (sel, cls, rA.out[:120])))
    return bad


def _shard(shard, seed, tier):
    part = core.Partial()
    handlers, cwdname, idxs = shard
    reqs = _requests(tier)
    env = _Env(handlers, cwdname)
    try:
        # warm-up: one request per handler kind so one-time imports do not pollute the log
        env.set_state("A")
        for sel in (b"/", b"/f.txt", b"/z.zip/sub", b"/z.zip/inner.zip/i.txt", b"/gm2", b"/m.mbox", b"/md", b"/s.sh", b"/p.pyg", b"/t.html.tal", b"/c.txt.gz", b"/h.html", b"/gm", b"/m.mbox|/MBOX-MESSAGE/1", b"/md|/MAILDIR-MESSAGE/1", b"URL:http://x/"):
            for proto in ("gopher", "gopherp_dir", "http", "wap", "gemini", "spartan"):
                d, t = rig.request(proto, sel)
                _serve_monitored(env, d, t)
        before = env.outside_digest()
        resA = {}
        rig.REQUEST_TIME_LIMIT = 3
        timeouts = 0
        done = []
        for i in idxs:
            w, enc, p, data, tls = reqs[i]
            resA[i] = _serve_monitored(env, data, tls)
            done.append(i)
            if isinstance(resA[i][0].escaped, rig.RequestTimeout):
                timeouts += 1
                part.violation("%s|%s|%s|tls=%d|timeout" % (handlers, cwdname, ascii(data[:160]), tls), "request did not finish within %d s" % rig.REQUEST_TIME_LIMIT,
                               {"kind": "req", "handlers": handlers, "cwd": cwdname, "w": w, "p": p, "data": data, "tls": tls})
                if timeouts >= 5:
                    part.extra.setdefault("capped", []).append("shard aborted after %d timed-out requests" % timeouts)
                    break
        idxs = done
        afterA = env.outside_digest()
        if afterA != before:
            part.violation("outside-modified|%s|%s|A" % (handlers, cwdname), "the tree outside the root changed while serving requests", {"kind": "outside", "handlers": handlers, "cwd": cwdname})
        env.set_state("B")
        before = env.outside_digest()
        for i in idxs:
            w, enc, p, data, tls = reqs[i]
            rB, evB = _serve_monitored(env, data, tls)
            rA, evA = resA.pop(i)
            part.evaluations += 2
            part.transitions += len(evA) + len(evB)
            part.state(handlers, cwdname, data, tls)
            fam = FAMILY_OF_CLASS.get(rA.proto, "?")
            part.outcome(fam, parsers.classify(fam, rA.out)[0] if fam != "?" else "?", alphabet.tries_to_climb(alphabet.decoded_selector(w, p)))
            if i % 4000 == 0:
                part.sample({"handlers": handlers, "cwd": cwdname, "request": data[:100], "tls": tls, "fs_events": len(evA), "response_head": rA.out[:60]})
            for cls, det in _judge(env, w, p, data, tls, rA, evA, rB, evB):
                key = "%s|%s|%s|tls=%d|%s" % (handlers, cwdname, ascii(data[:160]), tls, cls)
                part.violation(key, det, {"kind": "req", "handlers": handlers, "cwd": cwdname, "w": w, "p": p, "data": data, "tls": tls})
        if env.outside_digest() != before:
            part.violation("outside-modified|%s|%s|B" % (handlers, cwdname), "the tree outside the root changed while serving requests", {"kind": "outside", "handlers": handlers, "cwd": cwdname})
    finally:
        env.destroy()
    return part


def _startup_case(detach, relroot, cwdname):
    """The server as an administrator starts it: initialize() from a configuration file whose `root` is
    relative (or absolute), in the foreground or detached (fork answers "child"), launched from `cwdname`.
    Whatever start-up does with the working directory, requests are answered from the configured root."""
    import configparser

    import pygopherd.initialization as I
    from pygopherd import logger

    base = rig.fresh_dir("c01s")
    site = os.path.join(base, "site")
    docroot = os.path.join(site, "docroot")
    rig.build_tree(docroot, {"f.txt": b"inside the root\n", "d": {"g.txt": b"g\n"}})
    launch = {"site": site, "base": base}[cwdname]
    rootopt = os.path.relpath(docroot, launch) if relroot else docroot
    c = configparser.ConfigParser()
    c.read(rig.SHIPPED_CONF)
    for k, v in (("root", rootopt), ("mimetypes", rig.MIME_TYPES), ("port", "0"), ("interface", "127.0.0.1"), ("servertype", "ThreadingTCPServer"), ("detach", "yes" if detach else "no"),
                 ("pidfile", os.path.join(base, "pid")), ("usechroot", "no"), ("servername", rig.SERVER_NAME)):
        c.set("pygopherd", k, v)
    for opt in ("setuid", "setgid"):
        if c.has_option("pygopherd", opt):
            c.remove_option("pygopherd", opt)
    c.set("logger", "logmethod", "none")
    conf = os.path.join(base, "pygopherd.conf")
    with open(conf, "w") as f:
        c.write(f)
    import signal

    # (initialize() installs the daemon's SIGHUP/SIGTERM handlers, which take the whole process group down:
    #  they must not outlive this case inside a check process)
    old = {"cwd": os.getcwd(), "fork": os.fork, "setpgrp": os.setpgrp, "log": logger.log, "hup": signal.getsignal(signal.SIGHUP), "term": signal.getsignal(signal.SIGTERM)}
    bad = []
    server = None
    try:
        os.chdir(launch)
        os.fork = lambda: 0
        os.setpgrp = lambda: None
        rig.reset_lazies()
        try:
            server = I.initialize(conf)
        except BaseException as e:  # noqa
            return [("startup-failed", "initialize() raised %s: %s" % (type(e).__name__, e))]
        for proto, sel, want in (("gopher", "/f.txt", b"inside the root\n"), ("gopher", "/d/g.txt", b"g\n"), ("http", "/f.txt", b"inside the root\n"), ("gopher", "/d", b"g.txt")):
            monitor.start()
            r = rig.serve(server, *rig.request(proto, sel))
            ev = monitor.stop()
            if r.internal_error or want not in r.out:
                bad.append(("root-lost", "detach=%s root=%r launched from %s: %s %s is answered %r (%s); the working directory is now %r" % (
                    detach, rootopt, launch, proto, sel, r.out[:100], r.describe_error(), os.getcwd())))
            outs = [e for e in ev if e[0] in ("open", "os.listdir", "os.scandir") and e[1] is not None and isinstance(e[1], (str, bytes))
                    and not monitor.reached(e[1], os.getcwd()).startswith(os.path.realpath(docroot)) and monitor.reached(e[1], os.getcwd()).startswith(("/docroot", "/site", os.path.realpath(base)))]
            if outs:
                bad.append(("outside-root", "detach=%s root=%r: serving %s touched %r" % (detach, rootopt, sel, outs[:2])))
    finally:
        os.fork, os.setpgrp = old["fork"], old["setpgrp"]
        signal.signal(signal.SIGHUP, old["hup"] if old["hup"] is not None else signal.SIG_DFL)
        signal.signal(signal.SIGTERM, old["term"] if old["term"] is not None else signal.SIG_DFL)
        logger.log = old["log"]
        os.chdir(old["cwd"])
        if server is not None:
            try:
                server.server_close()
            except Exception:  # noqa
                pass
        rig._mime_inited = None
        rig.reset_lazies()
        rig.rmtree(base)
    return bad


def _shard_startup(shard, seed, tier):
    part = core.Partial()
    for detach, relroot, cwdname in shard:
        bad = _startup_case(detach, relroot, cwdname)
        part.evaluations += 4
        part.transitions += 4
        part.state("startup", detach, relroot, cwdname)
        part.outcome("startup", detach, relroot, tuple(b[0] for b in bad))
        for cls, det in bad:
            part.violation("startup|detach=%d|relative-root=%d|from=%s|%s" % (detach, relroot, cwdname, cls), det, {"kind": "startup", "detach": detach, "relroot": relroot, "cwd": cwdname})
    return part


def replay(case):
    if case.get("kind") == "startup":
        bad = _startup_case(case["detach"], case["relroot"], case["cwd"])
        return bad[0] if bad else None
    if case["kind"] != "req":
        return None
    env = _Env(case["handlers"], case["cwd"])
    try:
        env.set_state("A")
        d, t = rig.request("gopher", b"/")
        _serve_monitored(env, d, t)
        rA, evA = _serve_monitored(env, case["data"], case["tls"])
        env.set_state("B")
        rB, evB = _serve_monitored(env, case["data"], case["tls"])
        bad = _judge(env, case["w"], case["p"], case["data"], case["tls"], rA, evA, rB, evB)
        # drop lazy-import noise that the warm-up of a full run absorbs
        bad = [b for b in bad if not (b[0].endswith("-outside") and ("site-packages" in b[1] or "/lib/python" in b[1]))]
    finally:
        env.destroy()
    return (bad[0][0], bad[0][1]) if bad else None


def run(ck):
    reqs = _requests(ck.tier)
    order = list(range(len(reqs)))
    if ck.seed:
        import random

        random.Random(ck.seed).shuffle(order)
    configs = [("full", "parent"), ("full", "sibling"), ("full", "slash"), ("default", "parent")]
    if ck.tier == "thorough":
        configs += [("default", "sibling"), ("default", "slash")]
    shards = []
    per = max(1, (core.NPROC * 2) // len(configs))
    for handlers, cwdname in configs:
        for ch in core.chunks(order, per):
            shards.append((handlers, cwdname, ch))
    ck.pmap(_shard_startup, [[(detach, relroot, cwdname)] for detach in (False, True) for relroot in (False, True) for cwdname in ("site", "base")])
    p = ck.pmap(_shard, shards)
    if p.extra.get("capped"):
        ck.caps.append("%d shard(s) aborted early after repeated request timeouts" % len(p.extra["capped"]))
    ck.rule = (
        "requests = 13 wrappers x {std, all-bytes, double, raw} percent-encodings x paths (<=2 segments over %d segments x 3 separators; <=3 segments over a core alphabet; curated climbs); "
        "each served under handler lists/working directories %s in two states of the world outside the root; distinct = (protocol family, response class, tries-to-climb)"
        % (len(alphabet.SEGMENTS), configs)
    )
    ck.bounds = {"requests": len(reqs), "configs": len(configs), "outside_states": 2}
    ck.assumptions = [
        "content tree has no symlink leaving the root (as the property states)",
        "a file-system event counts by the object the kernel actually reaches (component walk), not by the spelling of the path",
        "allow-list outside the root: interpreter/stdlib/site dirs, /repo (lazy imports), conf/mime.types, zoneinfo, the decompressor binaries, temp files of the server and of the harness",
    ]

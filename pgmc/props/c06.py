"""C06 — the same site is seen through every protocol.

E1: over the names tree (every name x every kind, link files, gophermaps,
abstracts) every directory is listed through every protocol and the parsed
sequences (is-info, display name, normalised target) must agree, under every
abstract_entries x abstract_headers setting; every selector answers the same
with and without a trailing slash; every leaf has the same MIME type in every
protocol that advertises one.  Search: every string of <= 3 characters over a
14-character alphabet is submitted through each protocol's own mechanism and
must reach a PYG handler and a script environment as the same string.
"""
from __future__ import annotations

import collections
import itertools
import re
from urllib.parse import quote

from .. import core, parsers, rig, worlds
from .c03 import _norm
from .c05 import parse_listing

ID = "C06"

VIEWS = ["gopher", "gopherp", "gopherp_dir", "http", "wap", "gemini", "spartan", "sgopher", "https"]
NATIVE_ABSTRACT = {"gopherp", "gopherp_dir"}

META_DIR = {
    b"a.txt": b"A\n", b"b.html": worlds.HTML, b"a.txt.abstract": b"abstract of a\nline two\n", b"d.txt": b"D\n",
    b".abstract": b"abstract of the directory\n", b"d.txt.abstract": b"", b"b.html.keywords": b"\n", b"c": {b"x.txt": b"x\n", b".abstract": b"\n\n"},
    b".names": b"Path=./a.txt\nName=Alpha File\nNumb=2\nAbstract=from names\n\n"
               b"Name=Local New\nType=1\nPath=/f_dirs\nHost=+\nPort=+\nNumb=1\n\n"
               b"Name=Remote One\nType=0\nPath=/some/sel ector\nHost=remote.example\nPort=7070\n\n"
               b"Name=Remote NoPort\nType=1\nPath=/r\nHost=other.example\nPort=70\n\n"
               b"Name=A Web Link\nType=h\nPath=URL:http://example.com/x?y=1&z\nHost=+\nPort=+\n\n"
               b"Name=Relative\nType=0\nPath=c/x.txt\nHost=+\nPort=+\n\n"
               b"Name=Write to us\nType=h\nPath=URL:mailto:admin@example.com\nHost=+\nPort=+\n\n"
               b"Name=Nothing after the colon\nType=h\nPath=URL:\nHost=+\nPort=+\n\n"
               b"Name=Remote search\nType=7\nPath=/v2/vs\nHost=search.example\nPort=70\n\n"
               b"Name=Remote search other port\nType=7\nPath=/find\nHost=search.example\nPort=7070\n\n"
               b"Name=News\nType=h\nPath=/URL:news:comp.infosystems.gopher\nHost=+\nPort=+\n\n"
               b"Name=Find\nType=7\nPath=/f_files/plain.txt\nHost=+\nPort=+\n\n"
               b"Name=Other Daemon\nType=1\nPath=/archive\nPort=7071\n\n"
               b"Name=Other Host Same Port\nType=1\nPath=/archive\nHost=elsewhere.example\n",
    b".cap": {b"d.txt": b"Name=Delta Capped\nNumb=-1\n"},
}
GM_DIR = {
    b"gophermap": b"Welcome & <hello>\n\n0Local file\tlocal.txt\n1Root\t/\n0Abs\t/target.txt\nhWeb\tURL:http://example.com/\n"
                  b"1Remote\t/x\tremote.example\t7070\n0RemoteDefPort\t/y\tremote.example\n7Search\t/target.txt\n0NoSel\n iLooksLikeInfo\tx\n"
                  b"1OtherDaemon\t/archive\t\t7071\n7Remote search\t/v2/vs\tsearch.example\t70\n7Remote search 2\t/find\tsearch.example\t7070\nhMail\tURL:mailto:admin@example.com\nhPhone\t/URL:tel:+15550100\n",
    b"local.txt": b"local\n",
}


def _spec(names, full):
    s = worlds.names_spec(names, full=full, depth2=False)
    s[b"meta"] = META_DIR
    s[b"gmx"] = GM_DIR
    # a directory that is called what the WAP prefix (waptop) is called, and one more inside it: /wap/wap and
    # /wap/wap/wap are its WAP addresses -- the prefix comes off exactly once
    s[b"wap"] = {b"phones.txt": b"phones\n", b"wap": {b"deeper.txt": b"deeper\n"}, b"page.html": worlds.HTML}
    return s


def canon_entries(view, entries, drop_info):
    out = []
    for e in entries:
        name = e["name"]
        if view in ("gemini", "spartan"):
            name = parsers.undo_backslashreplace(name)
        if e["info"]:
            if drop_info:
                continue
            out.append(("i", name, ("none",)))
        else:
            tgt = e["target"]
            if tgt[0] == "remote":
                tgt = ("remote", tgt[1], tgt[2], tgt[3], tgt[4])
            out.append(("l", name, tgt))
    return out


def fetch_listing(w, view, sel):
    r = w.serve(*rig.request(view, sel))
    if r.internal_error:
        return r, None, "error: " + r.describe_error()
    crawler = {"gopherp_dir": "gopherp"}.get(view, view)
    try:
        cls, entries = parse_listing(crawler, r.out)
    except ValueError as e:
        return r, None, "unparsable: %s" % e
    if entries is None:
        return r, None, "not a listing (%s): %r" % (cls, r.out[:80])
    return r, entries, None


def directories(w):
    """All directory selectors reachable from / (crawled through plain Gopher)."""
    seen = [b"/"]
    queue = collections.deque([b"/"])
    while queue:
        sel = queue.popleft()
        r, entries, err = fetch_listing(w, "gopher", sel)
        if entries is None:
            continue
        for e in entries:
            if not e["info"] and e["target"][0] == "local" and e["type"] == b"1" and e["target"][1] not in seen and e["target"][1] != b"":
                seen.append(e["target"][1])
                queue.append(e["target"][1])
    return seen


def mime_of(view, out):
    if view in ("http", "https", "wap"):
        try:
            st, hd, body = parsers.split_http(out)
        except ValueError:
            return None
        return dict((k.lower(), v) for k, v in hd).get(b"content-type", b"").decode()
    if view in ("gemini", "spartan"):
        m = re.match(rb"^\d+ ([^\r\n]*)\r\n", out)
        return m.group(1).decode() if m else None
    if view == "gopherp_info":
        m = re.search(rb"\+VIEWS:\r\n ([^:\r\n ]+)", out)
        return m.group(1).decode() if m else None
    return None


MENU_MAP = {"http": "text/html", "https": "text/html", "wap": "text/vnd.wap.wml", "gemini": "text/gemini", "spartan": "text/gemini", "gopherp_info": "application/gopher+-menu"}


def shadowed(view, sel):
    """An HTTP request whose path begins with the configured WAP prefix IS a WAP request (that is what the
    prefix is for): an object that is called like the prefix has no address of its own in plain HTTP."""
    return view.startswith("http") and (sel == b"/wap" or sel.startswith(b"/wap/"))


def _shard(shard, seed, tier):
    part = core.Partial()
    handlers, ae, ah, names = shard
    w = rig.World(_spec(names, handlers == "full"), handlers=handlers, cachetime=0, tag="c06", pygopherd__abstract_entries=ae, pygopherd__abstract_headers=ah)
    try:
        dirs = directories(w)
        part.sample({"handlers": handlers, "abstract_entries": ae, "abstract_headers": ah, "directories": len(dirs), "views": VIEWS}, limit=1)
        for d in dirs:
            ref = None
            for view in VIEWS:
                if shadowed(view, d):
                    part.count("http_address_shadowed_by_waptop")
                    continue
                r, entries, err = fetch_listing(w, view, d)
                part.evaluations += 1
                part.transitions += 1
                part.state(handlers, ae, ah, d, view)
                case = {"kind": "dir", "handlers": handlers, "ae": ae, "ah": ah, "names": list(names), "d": d, "view": view}
                if entries is None:
                    part.violation("%s|%s|%s|%s|%s|listing" % (handlers, ae, ah, ascii(d), view), "directory %r via %s: %s" % (d, view, err), case)
                    continue
                native = view in NATIVE_ABSTRACT and ae == "unsupported"
                full = canon_entries(view, entries, drop_info=False)
                links = canon_entries(view, entries, drop_info=True)
                if view == "gopher":
                    ref = (full, links)
                    part.outcome(handlers, ae, ah, len(full), len(links))
                    continue
                want = ref[1] if native else ref[0]
                got = links if native else full
                if view in NATIVE_ABSTRACT and ae == "unsupported" and ah == "on":
                    pass
                if got != want:
                    i = next((j for j in range(min(len(got), len(want))) if got[j] != want[j]), min(len(got), len(want)))
                    part.violation("%s|%s|%s|%s|%s|entries" % (handlers, ae, ah, ascii(d), view),
                                   "directory %r: %s shows %d entries, gopher %d; first difference at #%d: %r vs %r" % (
                                       d, view, len(got), len(want), i, got[i:i + 1], want[i:i + 1]), case)
            # trailing slash (for the URL-based protocols also sent percent-encoded)
            if d != b"/":
                for view in ("gopher", "http", "gemini", "spartan", "wap", "gopherp_dir", "http%2F", "gemini%2F", "spartan%2F", "wap%2F"):
                    enc_slash = view.endswith("%2F")
                    view = view[:-3] if enc_slash else view
                    if shadowed(view, d):
                        continue
                    a = w.serve(*rig.request(view, d))
                    if enc_slash:
                        rq, tls = rig.request(view, d)
                        # append %2F to the path part of the request line
                        if view in ("http", "wap"):
                            rq = rq.replace(b" HTTP/1.0", b"%2F HTTP/1.0", 1)
                        elif view == "gemini":
                            rq = rq.replace(b"\r\n", b"%2F\r\n", 1)
                        else:
                            rq = rq.replace(b" 0\r\n", b"%2F 0\r\n", 1)
                        b = w.serve(rq, tls)
                    else:
                        b = w.serve(*rig.request(view, d + b"/"))
                    part.evaluations += 2
                    if _norm(a.out) != _norm(b.out):
                        part.violation("%s|%s|%s|%s|%s|trailing-slash" % (handlers, ae, ah, ascii(d), view), "%r and %r/ answer differently via %s: %r vs %r" % (d, d, view, a.out[:120], b.out[:120]),
                                       {"kind": "dir", "handlers": handlers, "ae": ae, "ah": ah, "names": list(names), "d": d, "view": view})
        # MIME agreement of every leaf and directory
        if ae == "always" and ah == "on":
            leaves = []
            for d in dirs:
                r, entries, err = fetch_listing(w, "gopher", d)
                for e in entries or []:
                    if not e["info"] and e["target"][0] == "local":
                        leaves.append((e["target"][1], e["type"]))
            for sel, t in dict(leaves).items():
                if t == b"7":
                    continue
                mimes = {}
                for view in ("http", "gemini", "spartan", "gopherp_info", "https"):
                    if shadowed(view, sel):
                        continue
                    r = w.serve(*rig.request(view, sel))
                    part.evaluations += 1
                    m = mime_of(view, r.out)
                    if m is None:
                        continue
                    if t == b"1":
                        if m == MENU_MAP[view] or (view == "gopherp_info" and m == "application/gopher-menu"):
                            m = "MENU"
                    mimes[view] = m
                if len(set(mimes.values())) > 1:
                    part.violation("%s|%s|mime" % (handlers, ascii(sel)), "selector %r has different MIME types per protocol: %r" % (sel, mimes),
                                   {"kind": "mime", "handlers": handlers, "names": list(names), "sel": sel})
    finally:
        w.destroy()
    return part


# --- search -----------------------------------------------------------------------------

SEARCH_ALPHABET = [b"a", b" ", b"+", b"&", b"=", b"%", b"?", b"#", b"/", b"\xc3\xa9", b"\xff", b'"', b"<", b"'"]
SEARCH_VIEWS = ["gopher", "gopherp", "http", "wap", "gemini", "gemini_raw", "gemini_flow", "gemini_flow_raw", "spartan", "https", "sgopher"]

HEXDUMP = b"#!/bin/sh\nprintf '%s' \"$SEARCHREQUEST\" | od -An -v -tx1 | tr -d ' \\n'\n"
PYGQ = worlds.PYG.replace(b'"PYG:%r\\n" % (self.searchrequest,)', b'"PYG:%s\\n" % ((self.searchrequest or "").encode(errors="surrogateescape").hex(),)')


def search_strings(maxlen):
    out = [b""]
    for n in range(1, maxlen + 1):
        for combo in itertools.product(SEARCH_ALPHABET, repeat=n):
            s = b"".join(combo)
            if s[:1] == b" " or s[-1:] == b" ":
                continue
            out.append(s)
    return out


def search_request(view, sel, q):
    host = rig.SERVER_NAME.encode()
    enc = quote(q, safe="").encode()
    if view in ("gopher", "sgopher"):
        return sel + b"\t" + q + b"\r\n", view == "sgopher"
    if view == "gopherp":
        return sel + b"\t" + q + b"\t+\r\n", False
    if view in ("http", "https"):
        return b"GET " + sel + b"?searchrequest=" + enc + b" HTTP/1.0\r\n\r\n", view == "https"
    if view == "wap":
        return b"GET /wap" + sel + b"?searchrequest=" + enc + b" HTTP/1.0\r\n\r\n", False
    if view == "gemini":
        return b"gemini://" + host + sel + b"?" + enc + b"\r\n", True
    if view == "gemini_raw":
        # a client that leaves the characters RFC 3986 allows in a query unescaped ('+' is just '+')
        return b"gemini://" + host + sel + b"?" + quote(q, safe="!$&'()*+,;=:@/?").encode() + b"\r\n", True
    if view == "spartan":
        return host + b" " + sel + (" %d\r\n" % len(q)).encode() + q, False
    raise ValueError(view)


def _delivered(view, out, target):
    """hex string the handler saw, or None"""
    if target == "pyg":
        m = re.search(rb"PYG:([0-9a-f]*)", out)
    else:
        if view == "wap":
            m = re.search(rb"<p>\n([0-9a-f]*)\n?</p>", out)
            if m is None and b"<p>\n</p>" in out:
                return b""
        else:
            body = out
            if view in ("http", "https"):
                try:
                    body = parsers.split_http(out)[2]
                except ValueError:
                    return None
            elif view in ("gemini", "gemini_raw", "spartan", "gopherp"):
                body = out.split(b"\r\n", 1)[1] if b"\r\n" in out else b""
            m = re.match(rb"^([0-9a-f]*)$", body.strip())
    return m.group(1) if m else None


def _shard_search(shard, seed, tier):
    part = core.Partial()
    target, qs = shard
    w = rig.World({"q.pyg": ("exec", PYGQ), "q.sh": ("exec", HEXDUMP)}, handlers="full", cachetime=0, tag="c06s")
    sel = b"/q.pyg" if target == "pyg" else b"/q.sh"
    try:
        for q in qs:
            seen = {}
            for view in SEARCH_VIEWS:
                if view.startswith("gemini_flow"):
                    if q == b"":
                        continue
                    # the way a Gemini client follows a search link: prompt (10), input, redirect (30), final URL
                    host = rig.SERVER_NAME.encode()
                    enc = quote(q, safe="").encode() if view == "gemini_flow" else quote(q, safe="!$&'()*+,;=:@/?").encode()
                    r0 = w.serve(b"gemini://" + host + b"/GEMINI-QUERY" + sel + b"\r\n", True)
                    r1 = w.serve(b"gemini://" + host + b"/GEMINI-QUERY" + sel + b"?" + enc + b"\r\n", True)
                    part.evaluations += 2
                    m = re.match(rb"^30 ([^\r\n]*)\r\n$", r1.out)
                    if not r0.out.startswith(b"10 ") or not m:
                        seen[view] = None
                        continue
                    r = w.serve(b"gemini://" + host + m.group(1) + b"\r\n", True)
                    part.evaluations += 1
                    seen[view] = None if r.internal_error else _delivered("gemini", r.out, target)
                    continue
                if view in ("gopher", "sgopher") and q[:1] in (b"+", b"$", b"!"):
                    # a second field that starts with + $ ! IS a Gopher+ request by the protocol's own
                    # definition; such a string can only be submitted as a search through Gopher+
                    continue
                data, tls = search_request(view, sel, q)
                r = w.serve(data, tls)
                part.evaluations += 1
                part.transitions += 1
                got = None if r.internal_error else _delivered(view, r.out, target)
                seen[view] = got
            part.state(target, q)
            vals = set(seen.values())
            part.outcome(target, len(q), len(vals) == 1)
            want = q.hex().encode()
            wrong = {v: g for v, g in seen.items() if g != want}
            if wrong:
                part.violation("search|%s|%s|%s" % (target, ascii(q), ",".join(sorted(wrong))),
                               "search string %r reaches the %s handler as %r (expected %r everywhere)" % (q, target, {v: (bytes.fromhex(g.decode()) if g is not None else None) for v, g in wrong.items()}, q),
                               {"kind": "search", "target": target, "q": q})
        part.sample({"search": "strings of <= 3 chars over %r via %s to the %s handler" % (SEARCH_ALPHABET, SEARCH_VIEWS, target)}, limit=1)
    finally:
        w.destroy()
    return part


def replay(case):
    if case["kind"] == "search":
        p = _shard_search((case["target"], [case["q"]]), 0, "quick")
    else:
        p = _shard((case["handlers"], case.get("ae", "always"), case.get("ah", "on"), case["names"]), 0, "quick")
    return (p.violations[0][0], p.violations[0][1]) if p.violations else None


def run(ck):
    shards = []
    groups = core.chunks(worlds.NAMES, 5 if ck.tier == "quick" else 10)
    for handlers in ("default", "full"):
        for ae in ("always", "unsupported", "never"):
            for ah in ("on", "off"):
                if ck.tier == "quick" and handlers == "default" and not (ae == "always" and ah == "on"):
                    continue
                for g in groups:
                    shards.append((handlers, ae, ah, g))
    ck.pmap(_shard, shards)
    qs = search_strings(3 if ck.tier == "thorough" else 2) if ck.tier == "thorough" else [q for q in search_strings(3) if len(q) <= 2 or q.count(b"a") >= 1]
    sshards = []
    # long search strings: around the sizes at which a line reader, a URL parser or a buffer might cut
    longs = [(b"q%d-" % n + b"x" * n)[:n] for n in (255, 1021, 1024, 2040, 4090, 4096, 5000, 8192, 65536)]
    for target in ("pyg", "sh"):
        sshards.append((target, longs if target == "pyg" else longs[:-1]))  # (a 64 KiB string does not fit into one environment variable comfortably)
    for target in ("pyg", "sh"):
        tq = qs if target == "pyg" else [q for q in qs if len(q) <= 2] + ([q for q in qs if len(q) == 3] if ck.tier == "thorough" else [])
        for ch in core.chunks(tq, core.NPROC):
            sshards.append((target, ch))
    ck.pmap(_shard_search, sshards)
    ck.rule = ("directories of the names tree (%d names x kinds, link files, .cap, abstracts, a gophermap with remote/URL/search entries) viewed through %d protocol forms under handler lists x abstract_entries x abstract_headers; "
               "trailing-slash variants; MIME agreement per selector; search strings of <= 3 characters over %d characters (no leading/trailing blank) and 9 long ones (255 .. 65536 bytes) through 11 protocol mechanisms to a PYG handler and to a script's environment; "
               "distinct = listings: (handler list, settings, entry counts); search: (target, length, all-agree)" % (len(worlds.NAMES), len(VIEWS), len(SEARCH_ALPHABET)))
    ck.bounds = {"names": len(worlds.NAMES), "views": len(VIEWS), "search_strings": len(qs)}
    ck.assumptions = ["clients are conservative: everything non-alphanumeric in a search string is percent-encoded where the protocol has an encoding",
                      "Gemini/Spartan display names are compared after undoing backslashreplace; info lines may differ only for abstract_entries=unsupported and only for Gopher+ (which carries abstracts natively)",
                      "an empty search string is equivalent to an absent one"]

"""C14 — concurrent clients are isolated from one another.

E3: 2 (quick) / 3 (thorough) real connection handlers run concurrently under the
cooperative scheduler, drawn from a menu of requests chosen to collide (same
directory through several protocols with the cache on, documents of equal size,
the first requests after start-up racing through the lazy initialisers, HTTP
header slurp, mailbox, ZIP).  Scheduling points: cache-file operations,
directory enumeration, every traced line of the lazy initialisers, of the cache
load/save and of the block copy loop.  All interleavings within the preemption
bound; each client's bytes must equal its sequential answer.
E4: a real ForkingTCPServer whose children are released by the harness in every
completion order, with service_actions() at every subset of positions.
"""
from __future__ import annotations

import itertools
import os
import socket
import time

from .. import core, rig, sched, worlds
from .c03 import _norm

ID = "C14"
CACHE = ".cache.pygopherd.dir"

BIG_A = (b"A-line %04d aaaaaaaaaaaaaaaaaaaaaaaaaaaaaaaaaaaaaaaaaaaaaaa\n" * 1)
MENU = [
    ("gopher", b"/d", None), ("http", b"/d", None), ("gopherp_dir", b"/d", None), ("gopher", b"/d/big_a.txt", None), ("http", b"/d/big_b.txt", None),
    ("gopher", b"/m.mbox", None), ("gopher", b"/z.zip/sub", None), ("http", b"/d/big_a.txt", b"Accept: text/html\r\nX-Probe: 1\r\n\r\n"),
    ("gemini", b"/d", None), ("gopherp", b"/d/small.txt", None),
    # two different PYG modules (each is loaded into the process per request); paired with each other and with the first item only
    ("gopher", b"/one.pyg", None), ("gopher", b"/two.pyg", None),
]
NCORE = 10


def _spec():
    big_a = b"".join(b"A-line %05d aaaaaaaaaaaaaaaaaaaaaaaaaaaaaaaaaaaaaaaaaaaaaaaaaa\n" % i for i in range(70))  # ~4.5 kB: two copy blocks
    big_b = b"".join(b"B-line %05d bbbbbbbbbbbbbbbbbbbbbbbbbbbbbbbbbbbbbbbbbbbbbbbbbb\n" % i for i in range(70))
    return {
        "d": {"big_a.txt": big_a, "big_b.txt": big_b, "small.txt": b"small\n", "sub": {"x.txt": b"x\n"}, "h.html": worlds.HTML, "pic.gif": b"GIF89a", "data.bin": b"\0\1\2", "small.txt.abstract": b"about small\n",
              ".names": b"Path=./small.txt\nName=Small One\nNumb=1\n"},
        "m.mbox": worlds.MBOX,
        "one.pyg": ("exec", worlds.PYG.replace(b"PYG:%r", b"PYG-ONE:%r")), "two.pyg": ("exec", worlds.PYG.replace(b"PYG:%r", b"PYG-TWO:%r")),
        "z.zip": worlds.make_zip([("f.txt", b"zf\n"), ("sub/g.txt", b"zg\n")]),
    }


def _req(i):
    proto, sel, hdr = MENU[i]
    data, tls = rig.request(proto, sel)
    if hdr is not None:
        data = data[:-2] + hdr  # replace the empty header block
    return data, tls


def _select(name, selector):
    return selector.endswith(CACHE) or name == "listdir"


def _traced():
    import pygopherd.gopherentry as G
    import pygopherd.handlers.base as B
    import pygopherd.handlers.dir as D
    import pygopherd.handlers.HandlerMultiplexer as H
    import pygopherd.handlers.pyg as PY
    import pygopherd.handlers.UMN as U
    import pygopherd.protocols.http as HT

    # lazy initialisers: every line of the first two invocations per client (a table that is
    # filled step by step is observable half-built), nothing afterwards (read-only by then)
    return {
        H.init_default_handlers.__code__: (None, None, 1),
        B.VFS_Real.getrootpath.__code__: (None, None, 1),
        G.GopherEntry.guesstype.__code__: (None, None, 1),
        G.GopherEntry.handleeaext.__code__: (8, None, 1),
        U.UMNDirHandler.prep_entriesappend.__code__: (14, None, 1),
        # (loadcache/savecache touch shared state only through the cache file, whose every
        #  stat/open/read/write/close is a point of the VFS seam already)
        # the cache writer line by line: whatever it does between starting and finishing the file
        # (temporary names, renames) happens in the directory other clients are enumerating
        D.DirHandler.savecache.__code__: (None, None),
        # loading a PYG module: whatever it registers process-wide while doing so
        # (only where a .pyg file really is being loaded, i.e. past the tests on the selector)
        PY.PYGHandler.canhandlerequest.__code__: (None, lambda frame: frame.f_lineno - frame.f_code.co_firstlineno >= 13 and str(getattr(frame.f_locals.get("self"), "selector", "")).endswith(".pyg")),
        B.VFS_Real.copyto.__code__: (None, None),
        HT.HTTPProtocol.headerslurp.__code__: (5, None),  # the per-connection cache test and the first header read
    }


class _Env:
    def __init__(self, cold):
        sched.install(_select)
        self.cold = cold
        self.w = rig.World(_spec(), handlers="full", cachetime=100000, tag="c14")
        self.cpaths = [os.path.join(self.w.root, "d", CACHE), os.path.join(self.w.root, CACHE)]
        self.seq = {}
        for i in range(len(MENU)):
            self.reset()
            data, tls = _req(i)
            r = self.w.serve(data, tls)
            if r.internal_error:
                raise core.HarnessError("sequential answer for %r failed: %s" % (MENU[i], r.describe_error()))
            self.seq[i] = _norm(r.out)
        self.traced = _traced()

    def reset(self):
        for p in self.cpaths:
            if os.path.exists(p):
                os.unlink(p)
        if self.cold:
            rig.reset_lazies()

    def destroy(self):
        self.w.destroy()


def _explore(part, env, combo, bound, roots=None):
    def make_funcs():
        env.reset()
        funcs = []
        for i in combo:
            data, tls = _req(i)
            funcs.append(lambda data=data, tls=tls: env.w.serve(data, tls))
        return funcs

    def on_exec(x):
        part.evaluations += 1
        part.transitions += x.steps
        outs = []
        bad = None
        for k, i in enumerate(combo):
            kind, r = x.results[k]
            if kind == "exc":
                bad = ("task-exception", "client %d (%r): %r" % (k, MENU[i][:2], r))
                break
            outs.append(core.h64(_norm(r.out)))
            if r.internal_error:
                bad = ("error", "client %d (%r): %s" % (k, MENU[i][:2], r.describe_error()))
                break
            if _norm(r.out) != env.seq[i]:
                got, want = _norm(r.out), env.seq[i]
                j = next((a for a in range(min(len(got), len(want))) if got[a] != want[a]), min(len(got), len(want)))
                bad = ("not-isolated", "client %d (%r) received %d bytes, alone it receives %d; first difference at byte %d: %r vs %r" % (
                    k, MENU[i][:2], len(got), len(want), j, got[j:j + 40], want[j:j + 40]))
                break
        part.state("sched", env.cold, combo, tuple(x.choices))
        part.outcome("sched", env.cold, combo, tuple(outs), bad[0] if bad else "")
        if bad:
            key = "sched|%s|%s|%s|%s" % ("cold" if env.cold else "warm", "+".join("%s:%s" % (MENU[i][0], MENU[i][1].decode()) for i in combo), ",".join(map(str, x.choices)), bad[0])
            switches = [p[2] for p, c in zip(x.points, x.choices) if c][:6]
            part.violation(key, bad[1] + " ; switches at %r" % (switches,), {"kind": "sched", "cold": env.cold, "combo": list(combo), "choices": list(x.choices)})

    n, capped = sched.explore(make_funcs, bound, on_exec, traced=env.traced, roots=roots, cap=60000)
    part.count("schedules", n)
    if capped:
        part.extra.setdefault("capped", []).append(repr(combo))


def _shard(shard, seed, tier):
    part = core.Partial()
    cold, combos, bound = shard
    env = _Env(cold)
    try:
        for combo in combos:
            _explore(part, env, combo, bound)
        part.sample({"concurrent_requests": [list(MENU[i][:2]) for i in combos[0]], "start": "cold (lazies reset)" if cold else "warm", "preemption_bound": bound}, limit=1)
    finally:
        env.destroy()
    return part


# ---------------------------------------------------------------------------
# forking / threading server: completion orders and reaping
# ---------------------------------------------------------------------------


class _StubCtx:
    """Makes wrap_socket() peek at the first byte (so a child blocks until the
    harness sends it); never asked to wrap because no request starts with 0x16."""

    def wrap_socket(self, sock, server_side=False):
        raise AssertionError("unexpected TLS wrap")


def _fork_case(kind, order, actions):
    """3 clients connect; the server accepts all (forking a child / starting a
    thread each); the harness then releases them in `order`, calling
    service_actions() at the positions in `actions`."""
    import pygopherd.server as S

    root = rig.fresh_dir("c14f")
    rig.build_tree(root, _spec())
    config = rig.make_config(root, handlers="default", cachetime=0)
    rig.init_mime(config)
    rig.reset_lazies()
    cls = S.ForkingTCPServer if kind == "fork" else S.ThreadingTCPServer
    server = cls(config, ("127.0.0.1", 0), S.GopherRequestHandler, context=_StubCtx())
    server.socket.settimeout(5)
    if kind == "thread":
        server.daemon_threads = True
    bad = []
    reqs = [b"/d/small.txt\r\n", b"/d\r\n", b"GET /d/big_a.txt HTTP/1.0\r\n\r\n"]
    want = []
    seqw = rig.World(None, handlers="default", cachetime=0, root=root, tag="c14fs")
    seqw.server.server_name = server.server_name
    seqw.server.server_port = server.server_port
    for rq in reqs:
        want.append(_norm(seqw.serve(rq).out))
    try:
        socks = []
        import threading

        parent = os.getpid()
        marker = os.path.join(root, "..", "escaped-%d" % parent)

        def accept_one(pending):
            """accept + fork/thread.  The WORKER blocks peeking at the first byte; the accept loop
            itself must come back at once even though the client has not said anything yet."""
            def target():
                server.handle_request()
                if os.getpid() != parent:
                    with open(marker, "a") as f:  # a forked worker came back out of process_request()
                        f.write("x")
                    os._exit(0)

            t = threading.Thread(target=target, daemon=True)
            t.start()
            t.join(3)
            if t.is_alive():
                for ps in pending:  # unblock it so the case can be torn down
                    try:
                        ps.sendall(b"/d/small.txt\r\n")
                    except OSError:
                        pass
                t.join(10)
                return False
            return True

        for _ in reqs:
            s = socket.create_connection(server.server_address, timeout=10)
            socks.append(s)
            if not accept_one(socks):
                bad.append(("accept-loop-blocked", "the accept loop did not return while a connected client was still silent: no other client can be served meanwhile"))
                return bad
        if 0 in actions:
            server.service_actions()
        for pos, i in enumerate(order, start=1):
            socks[i].sendall(reqs[i])
            buf = b""
            while True:
                ch = socks[i].recv(65536)
                if not ch:
                    break
                buf += ch
            socks[i].close()
            if _norm(buf) != want[i]:
                bad.append(("wrong-answer", "client %d got %r..., alone %r..." % (i, buf[:80], want[i][:80])))
            if pos in actions:
                server.service_actions()
        # the listener still accepts
        s = socket.create_connection(server.server_address, timeout=10)
        if not accept_one([s]):
            bad.append(("accept-loop-blocked", "the accept loop did not return for a client connecting after the burst"))
            return bad
        s.sendall(reqs[0])
        buf = b""
        while True:
            ch = s.recv(65536)
            if not ch:
                break
            buf += ch
        s.close()
        if _norm(buf) != want[0]:
            bad.append(("listener-dead", "a client connecting after the burst got %r" % buf[:80]))
        if kind == "fork":
            deadline = time.time() + 20
            while time.time() < deadline:
                server.service_actions()
                if not server.active_children:
                    break
                time.sleep(0.01)
            if os.path.exists(marker):
                bad.append(("worker-escaped", "a forked worker returned from process_request() into the accept loop instead of exiting"))
                os.unlink(marker)
            if server.active_children:
                bad.append(("not-reaped", "children still in the table after the burst: %r" % (server.active_children,)))
    finally:
        server.server_close()
        rig.rmtree(root)
        seqw.destroy()
    return bad


def _tls_burst(kind):
    """A real TLS context; good plaintext and TLS clients next to one that starts a handshake
    (first byte 0x16) and then sends junk.  Everybody else is answered, the broken worker ends,
    nothing is left in the child table, the listener is still the only acceptor."""
    import ssl
    import threading

    import pygopherd.server as S

    root = rig.fresh_dir("c14t")
    rig.build_tree(root, _spec())
    config = rig.make_config(root, handlers="default", cachetime=0)
    rig.init_mime(config)
    rig.reset_lazies()
    ctx = ssl.create_default_context(ssl.Purpose.CLIENT_AUTH)
    ctx.load_cert_chain(os.path.join(rig.REPO, "testdata", "demo.crt"), os.path.join(rig.REPO, "testdata", "demo.key"))
    cls = S.ForkingTCPServer if kind == "fork" else S.ThreadingTCPServer
    server = cls(config, ("127.0.0.1", 0), S.GopherRequestHandler, context=ctx)
    server.socket.settimeout(5)
    if kind == "thread":
        server.daemon_threads = True
    bad = []
    try:
        parent = os.getpid()
        marker = os.path.join(root, "..", "escaped-%d" % parent)

        def accept_target():
            server.handle_request()
            if os.getpid() != parent:
                # we are a forked worker that came back out of process_request(): in a real
                # server it would now be sitting in the accept loop next to its parent
                with open(marker, "a") as f:
                    f.write("x")
                os._exit(0)

        def accept():
            t = threading.Thread(target=accept_target, daemon=True)
            t.start()
            t.join(5)
            return not t.is_alive()

        def talk(s, data):
            s.settimeout(4)
            s.sendall(data)
            buf = b""
            try:
                while True:
                    ch = s.recv(65536)
                    if not ch:
                        break
                    buf += ch
            except socket.timeout:
                # the answer came (or not) but the server never ended the stream
                if buf:
                    bad.append(("no-end-of-stream", "a client that got its %d-byte answer is still waiting for the end of the stream 4 s later (connection never shut down)" % len(buf)))
            except (OSError, ssl.SSLError):
                pass
            return buf

        for step in ("bogus", "plain", "tls", "bogus", "plain"):
            s = socket.create_connection(server.server_address, timeout=10)
            if not accept():
                bad.append(("accept-loop-blocked", "accept loop stuck at the %s client" % step))
                break
            if step == "bogus":
                talk(s, b"\x16\x03\x01\x00\x05junk!not a client hello\r\n")
            elif step == "plain":
                got = talk(s, b"/d/small.txt\r\n")
                if got != b"small\n":
                    bad.append(("wrong-answer", "plaintext client next to a broken TLS client got %r" % got[:80]))
            else:
                cctx = ssl.SSLContext(ssl.PROTOCOL_TLS_CLIENT)
                cctx.check_hostname = False
                cctx.verify_mode = ssl.CERT_NONE
                ss = cctx.wrap_socket(s)
                got = talk(ss, b"/d/small.txt\r\n")
                s = ss
                if got != b"small\n":
                    bad.append(("wrong-answer", "TLS client next to a broken TLS client got %r" % got[:80]))
            s.close()
        if kind == "fork":
            deadline = time.time() + 20
            while time.time() < deadline:
                server.service_actions()
                if not server.active_children:
                    break
                time.sleep(0.02)
            if os.path.exists(marker):
                bad.append(("worker-escaped", "a forked worker returned from process_request() into the accept loop instead of exiting"))
                os.unlink(marker)
            if server.active_children:
                bad.append(("not-reaped", "after a failed TLS handshake a worker process is still alive: %r" % (server.active_children,)))
                for pid in list(server.active_children):
                    try:
                        os.kill(pid, 9)
                    except OSError:
                        pass
    finally:
        server.server_close()
        rig.rmtree(root)
    return bad


def _stalled(kind, nstalled=40, tls=False):
    """A real server with many connected clients that send nothing: every further client is still
    answered promptly (nobody's silence is anybody else's problem).  With `tls`: the server has a TLS
    context and `timeout = 1`; clients that say nothing, half a line, or headers without end are dropped
    after the configured time whatever stage of the connection they are stuck in."""
    import ssl
    import threading

    import pygopherd.server as S

    root = rig.fresh_dir("c14s")
    rig.build_tree(root, _spec())
    config = rig.make_config(root, handlers="default", cachetime=0, **({"pygopherd__timeout": "1"} if tls else {}))
    rig.init_mime(config)
    rig.reset_lazies()
    cls = S.ForkingTCPServer if kind == "fork" else S.ThreadingTCPServer
    ctx = None
    if tls:
        ctx = ssl.create_default_context(ssl.Purpose.CLIENT_AUTH)
        ctx.load_cert_chain(os.path.join(rig.REPO, "testdata", "demo.crt"), os.path.join(rig.REPO, "testdata", "demo.key"))
    server = cls(config, ("127.0.0.1", 0), S.GopherRequestHandler, context=ctx)
    server.handle_error = lambda *a: None  # (socketserver prints a traceback per dropped client)
    if kind == "thread":
        server.daemon_threads = True
    else:
        server.max_children = 1000
    bad = []
    marker = os.path.join(root, "..", "escaped-stalled-%d" % os.getpid())
    parent = rig.guard_forked(server, marker)
    t = threading.Thread(target=lambda: server.serve_forever(poll_interval=0.02), daemon=True)
    t.start()
    silent = []
    try:
        openers = [b"", b"/d/small", b"GET /d/small.txt HTTP/1.0\r\nAccept: x\r\n"]
        for i in range(nstalled):
            s0 = socket.create_connection(server.server_address, timeout=10)
            if tls and openers[i % 3]:
                s0.sendall(openers[i % 3])
            silent.append(s0)
        time.sleep(0.3)
        if tls:
            # every stuck client is dropped after the configured second
            deadline = time.time() + 15
            still = list(silent)
            while still and time.time() < deadline:
                nxt = []
                for s0 in still:
                    s0.settimeout(0.05)
                    try:
                        if s0.recv(4096) != b"":
                            nxt.append(s0)  # an error reply is fine too; wait for the close
                    except socket.timeout:
                        nxt.append(s0)
                    except OSError:
                        pass
                still = nxt
            if still:
                bad.append(("never-dropped", "timeout = 1: %d of %d stuck clients (silent / half a line / unfinished headers) are still connected after 15 s" % (len(still), nstalled)))
        for label, data, want in (("gopher", b"/d/small.txt\r\n", b"small\n"), ("http", b"GET /d/small.txt HTTP/1.0\r\n\r\n", b"small\n"), ("spartan", b"gopher.test /d/small.txt 0\r\n", b"small\n")):
            s = socket.create_connection(server.server_address, timeout=12)
            s.settimeout(12)
            buf = b""
            try:
                s.sendall(data)
                while True:
                    ch = s.recv(65536)
                    if not ch:
                        break
                    buf += ch
            except OSError as e:
                bad.append(("starved", "with %d silent clients connected a %s client got no answer within 12 s (%s); received %r" % (nstalled, label, e, buf[:60])))
                s.close()
                break
            s.close()
            if not buf.endswith(want):
                bad.append(("wrong-answer", "with %d silent clients connected a %s client got %r" % (nstalled, label, buf[:80])))
    finally:
        for s in silent:
            s.close()
        if os.getpid() != parent:
            os._exit(0)
        server.shutdown()
        t.join(5)
        if os.path.exists(marker):
            bad.append(("worker-escaped", "a forked worker came back out of process_request() into the accept loop instead of ending"))
            os.unlink(marker)
        if kind == "fork":
            deadline = time.time() + 20
            while time.time() < deadline and server.active_children:
                server.service_actions()
                time.sleep(0.02)
            for pid in list(server.active_children or ()):
                try:
                    os.kill(pid, 9)
                except OSError:
                    pass
        server.server_close()
        rig.rmtree(root)
    return bad


def _shard_fork(shard, seed, tier):
    part = core.Partial()
    for kind, order, actions in shard:
        if order in ("stalled", "stalled-tls"):
            bad = _stalled(kind, tls=(order == "stalled-tls"))
            part.evaluations += 1
            part.transitions += 43
            part.state("stalled", kind)
            part.outcome("stalled", kind, tuple(b[0] for b in bad))
            for cls, det in bad:
                part.violation("server|%s|%s|%s" % (kind, order, cls), det, {"kind": "server", "skind": kind, "order": order, "actions": []})
            continue
        if order == "tls":
            bad = _tls_burst(kind)
            part.evaluations += 1
            part.transitions += 5
            part.state("tls-burst", kind)
            part.outcome("tls-burst", kind, tuple(b[0] for b in bad))
            for cls, det in bad:
                part.violation("server|%s|tls-burst|%s" % (kind, cls), det, {"kind": "server", "skind": kind, "order": "tls", "actions": []})
            continue
        bad = _fork_case(kind, order, actions)
        part.evaluations += 1
        part.transitions += 4 + len(actions)
        part.state("server", kind, order, actions)
        part.outcome("server", kind, tuple(b[0] for b in bad))
        part.sample({"server": kind, "completion_order": list(order), "service_actions_at": list(actions)}, limit=1)
        for cls, det in bad:
            part.violation("server|%s|%s|%s|%s" % (kind, "".join(map(str, order)), "".join(map(str, actions)), cls), det, {"kind": "server", "skind": kind, "order": list(order), "actions": list(actions)})
    return part


def replay(case):
    part = core.Partial()
    if case["kind"] == "server" and case["order"] in ("stalled", "stalled-tls"):
        bad = _stalled(case["skind"], tls=(case["order"] == "stalled-tls"))
        return bad[0] if bad else None
    if case["kind"] == "server" and case["order"] == "tls":
        bad = _tls_burst(case["skind"])
        return bad[0] if bad else None
    if case["kind"] == "server":
        bad = _fork_case(case["skind"], tuple(case["order"]), tuple(case["actions"]))
        return bad[0] if bad else None
    env = _Env(case["cold"])
    try:
        env.reset()
        funcs = []
        for i in case["combo"]:
            data, tls = _req(i)
            funcs.append(lambda data=data, tls=tls: env.w.serve(data, tls))
        x = sched.Execution(funcs, case["choices"], traced=env.traced).run()
        for k, i in enumerate(case["combo"]):
            kind, r = x.results[k]
            if kind == "exc":
                return ("task-exception", repr(r))
            if r.internal_error:
                return ("error", r.describe_error())
            if _norm(r.out) != env.seq[i]:
                return ("not-isolated", "client %d differs from its sequential answer" % k)
    finally:
        env.destroy()
    return None


def run(ck):
    n = len(MENU)

    def wanted(c):
        extra = [i for i in c if i >= NCORE]
        return not extra or all(i >= NCORE or i == 0 for i in c)

    if ck.tier == "quick":
        pairs = [c for c in itertools.combinations_with_replacement(range(n), 2) if wanted(c)]
        bound = 2
        combos = pairs
    else:
        bound = 3
        combos = [c for c in itertools.combinations_with_replacement(range(n), 2) if wanted(c)]
    shards = []
    for cold in (True, False):
        cc = combos
        if cold and ck.tier == "quick":
            # a cold start matters through the lazily initialised tables only: one request per way of reaching them
            cold_menu = (0, 1, 3, 5, 6)
            cc = [c for c in combos if all(i in cold_menu for i in c)]
        if ck.tier == "thorough":
            # three preemptions for the pairs among the first six requests (the ones that share the cache file, the
            # lazies and the copy loop), two for the rest: the full menu at bound 3 does not finish in hours
            deep = [c for c in cc if all(i < 6 for i in c)]
            rest = [c for c in cc if c not in deep]
            for ch in core.chunks(deep, core.NPROC * 2):
                shards.append((cold, ch, 3))
            for ch in core.chunks(rest, core.NPROC):
                shards.append((cold, ch, 2))
            continue
        for ch in core.chunks(cc, core.NPROC):
            shards.append((cold, ch, bound))
    if ck.tier == "thorough":
        triples = [c for c in itertools.combinations_with_replacement(range(5), 3)]
        for cold in (True, False):
            for ch in core.chunks(triples, core.NPROC):
                shards.append((cold, ch, 2))
    p = ck.pmap(_shard, shards)
    if p.extra.get("capped"):
        ck.caps.append("schedule cap (60000 per combination) hit for %r" % p.extra["capped"])
    fitems = []
    for kind in ("fork", "thread"):
        for order in itertools.permutations(range(3)):
            for k in range(5):
                for actions in itertools.combinations(range(4), k):
                    if ck.tier == "quick" and k not in (0, 1, 4):
                        continue
                    fitems.append((kind, order, actions))
    fitems += [("fork", "tls", ()), ("thread", "tls", ())]
    fitems += [("fork", "stalled", ()), ("thread", "stalled", ()), ("fork", "stalled-tls", ()), ("thread", "stalled-tls", ())]
    ck.pmap(_shard_fork, core.chunks(fitems, core.NPROC))
    ck.notes.append("schedules explored: %d" % p.extra.get("schedules", 0))
    ck.rule = ("all unordered pairs (thorough: also triples over the first 5, bound 2; bound 3 for pairs among the first six requests) of a %d-request menu x {cold start with lazies reset, warm}, every interleaving with <= %d preemptions; scheduling points at cache-file operations, directory enumeration and every traced line "
               "of the lazy initialisers, cache load/save, the copy loop and the HTTP header slurp; plus real forking and threading servers with 3 clients released in all 6 orders x service_actions() positions; "
               "distinct = (start state, combination, per-client answers, verdict)" % (n, bound))
    ck.bounds = {"preemptions": bound, "menu": n, "server_cases": len(fitems)}
    ck.assumptions = ["operations on immutable content commute with everything and are not scheduling points; preemption inside one bytecode or inside C code is not modelled",
                      "the forking server's children share only the file system with each other, which the cache-file scheduling points cover"]

"""C03 — every request is answered with one well-formed response, whatever came before.

(a) E1: bounded-exhaustive request lines against a well-formed content tree;
    oracle = independent per-protocol validator + no exception escaping handle()
    or reaching its catch-all + a 10 s alarm.
(b) E4: BFS over histories of read-only requests on a live world; invariant:
    the response to the last request equals the response on a fresh world.
"""
from __future__ import annotations

import itertools
import os
import re
import signal

from .. import alphabet, core, parsers, ref, rig, worlds

ID = "C03"

FAMILY_OF_CLASS = {
    "GopherProtocol": "gopher", "SecureGopherProtocol": "gopher",
    "GopherPlusProtocol": "gopherp", "SecureGopherPlusProtocol": "gopherp", "URLGopherPlus": "gopherp",
    "HTTPProtocol": "http", "HTTPSProtocol": "http", "WAPProtocol": "wap",
    "GeminiProtocol": "gemini", "SpartanProtocol": "spartan",
}


class _Timeout(Exception):
    pass


def _alarm(signum, frame):
    raise _Timeout("request exceeded 10 s")


def judge(r: rig.Result, data: bytes, may_be_empty=False):
    """-> None or (reason-class, detail)"""
    if r.escaped is not None:
        return ("escaped:" + type(r.escaped).__name__, r.describe_error())
    if r.caught:
        return ("catchall:" + type(r.caught[0]).__name__, r.describe_error())
    fam = FAMILY_OF_CLASS.get(r.proto)
    if fam is None:
        return ("no-protocol", "no protocol object answered (%r)" % r.proto)
    head = data.startswith(b"HEAD ")
    why = parsers.validate(fam, r.out, head=head)
    if why:
        return ("malformed:" + fam, why)
    if not r.out and not may_be_empty:
        return ("empty-reply", "no bytes written for a request that does not name an empty object")
    return None


# ---------------------------------------------------------------------------
# (a) inputs
# ---------------------------------------------------------------------------

EDGE_SELECTORS = []
for box, flag in ((b"/m.mbox", b"/MBOX-MESSAGE/"), (b"/md", b"/MAILDIR-MESSAGE/"), (b"/x", b"/MBOX-MESSAGE/"),
                  (b"/x", b"/MAILDIR-MESSAGE/"), (b"/f.txt", b"/MBOX-MESSAGE/"), (b"/a", b"/MAILDIR-MESSAGE/"),
                  (b"/md", b"/MBOX-MESSAGE/"), (b"/m.mbox", b"/MAILDIR-MESSAGE/"), (b"/z.zip/m.mbox", b"/MBOX-MESSAGE/")):
    for num in (b"0", b"1", b"2", b"3", b"99999999999999999999", b"9" * 5000, b"x", b"-1", b"", b"1x", b" 1", b"01"):
        for sep in (b"|", b"?"):
            EDGE_SELECTORS.append(box + sep + flag + num)
EDGE_SELECTORS += [
    b"/" + b"A" * 10240, b"/z.zip/", b"/z.zip/nope", b"/z.zip/sub/g.txt/x", b"/z.zip|x", b"/gm/gophermap", b"/x.gophermap",
    b"/.names", b"/.cap", b"/.cap/noext", b"/f.txt.abstract", b"/1/f.txt", b"/1/1/f.txt", b"/1/", b"/1", b"/h/h.html",
    b"URL:http://example.com/", b"/URL:http://example.com/", b"URL:", b"/URL:x", b"URL:a://b\"c", b"/URL:h://x/../y",
    b"/s.sh|a b c", b"/s.sh?", b"/p.pyg|arg", b"/t.html.tal|x", b"/c.txt.gz|x", b"/h.html?x", b"/md/cur", b"/md/cur/1:2,S",
    b"/emptydir", b"/empty.txt", b"/a/deep/d.txt", b" /f.txt ", b"/f.txt ", b"\xff\xfe", b"/\xe9", b"/%41",
    b"/PYGOPHERD-HTTPPROTO-ICONS/text.gif", b"/PYGOPHERD-HTTPPROTO-ICONS/nope.gif", b"/GEMINI-QUERY/f.txt",
]

# mail whose headers are well-formed RFC 5322 / RFC 2047 text that a header decoder may choke on: unknown charset,
# bytes that are invalid in the named charset, broken base64, raw 8-bit, folded and very long subjects, no subject
_SUBJECTS = [b"=?utf-8?q?Caf=C3=A9?=", b"=?bogus-charset?q?x?=", b"=?utf-8?q?=FF=FE?=", b"=?utf-8?b?!!!notbase64?=", b"=?utf-8?b?Q2Fm?= =?iso-8859-1?q?=E9?=", b"raw \xe9 8-bit",
             b"folded\n subject\n\tline", b"S" * 5000, b"=?utf-8?x?unknown-encoding?=", b"=??q??=", b"=?utf-8*en?q?lang?=", b"tab\there", b""]
ENC_MBOX = b"".join(b"From s%d@example Thu Jan  1 00:00:%02d 2004\nFrom: s%d@example\n" % (i, i, i) + (b"Subject: " + sub + b"\n" if sub else b"") + b"\nbody %d\n\n" % i for i, sub in enumerate(_SUBJECTS))
ENC_MAILDIR = {b"cur": {b"%d:2,S" % i: b"From: s%d@example\n" % i + (b"Subject: " + sub + b"\n" if sub else b"") + b"\nbody %d\n" % i for i, sub in enumerate(_SUBJECTS)}, b"new": {}, b"tmp": {}}
EDGE_SELECTORS += [b"/u.zip", b"/u.zip/drink", b"/u.zip/sub/up", b"/u.zip/caf\xc3\xa9.txt", b"/enc.mbox", b"/encmd"] + [b"/enc.mbox|/MBOX-MESSAGE/%d" % (i + 1) for i in range(len(_SUBJECTS))] + [b"/encmd|/MAILDIR-MESSAGE/%d" % (i + 1) for i in range(len(_SUBJECTS))]


def _spec_a():
    spec = worlds.standard_spec(full=True)
    spec[b"enc.mbox"] = ENC_MBOX
    spec[b"encmd"] = ENC_MAILDIR
    # an archive whose link members point at a member with a non-ASCII name
    spec[b"u.zip"] = worlds.make_zip([("caf\u00e9.txt", b"un caf\xc3\xa9\n"), ("sub/x.txt", b"x\n")], symlinks=[("drink", "caf\u00e9.txt"), ("sub/up", "../caf\u00e9.txt")])
    return spec


RAW_LINES = []
_FIELDS = [b"", b"/f.txt", b"/a", b"+", b"!", b"$", b"+text/plain", b"q", b"0", b"\xe9", b" "]
for n in (1, 2, 3, 4):
    for combo in itertools.product(_FIELDS, repeat=n):
        if n == 4 and not (combo[0] in (b"", b"/f.txt") and combo[1] in (b"", b"q")):
            continue
        for term in (b"\r\n", b"\n", b""):
            if n >= 3 and term != b"\r\n":
                continue
            RAW_LINES.append(b"\t".join(combo) + term)
_HTTPISH = [
    b"GET / HTTP/1.0", b"GET  / HTTP/1.0", b"GET /", b"GET", b"HEAD /f.txt HTTP/1.1", b"POST / HTTP/1.0", b"GET /f.txt HTTP/",
    b"GET /f.txt?searchrequest=a+b&x=%ff HTTP/1.0", b"GET /f.txt? HTTP/1.0", b"GET ? HTTP/1.0", b"GET /%0d%0aX:y HTTP/1.0",
    b"GET /wap HTTP/1.0", b"GET /wap/ HTTP/1.0", b"GET /wapx HTTP/1.0", b"GET /wap/nope HTTP/1.0", b"GET\t/ HTTP/1.0",
    b"GET /a?searchrequest= HTTP/1.0", b"GET /f.txt#frag HTTP/1.0", b"GET /%zz HTTP/1.0", b"GET /% HTTP/1.0",
    # request targets in the forms a URL parser treats specially: network-path and absolute form, with the same
    # well- and ill-formed authorities as the Gemini list
    b"GET //h/f.txt HTTP/1.0", b"GET //[ HTTP/1.0", b"GET //[::1]/f.txt HTTP/1.0", b"GET //[::1/f.txt HTTP/1.0", b"GET //]/ HTTP/1.0", b"GET http://h/f.txt HTTP/1.0", b"GET http://[/x HTTP/1.0",
    b"GET http://[::1]:x/f.txt HTTP/1.0", b"GET http://h:99999/f.txt HTTP/1.0", b"GET http://u:pw@h:x/f.txt HTTP/1.0", b"HEAD //[v1.x/ HTTP/1.0", b"GET /wap//[ HTTP/1.0", b"GET /wap/http://[/x HTTP/1.0",
    b"GET /[ HTTP/1.0", b"GET /f.txt?[ HTTP/1.0", b"GET //h:\xc2\xb2/f.txt HTTP/1.0", b"GET * HTTP/1.0", b"GET h:80 HTTP/1.0",
]
_HDRS = [b"\r\n", b"Accept: text/vnd.wap.wml\r\nx-wap-profile: y\r\n\r\n", b"Accept: text/html\r\n\r\n", b"Broken\r\n: x\r\n\r\n", b""]
for l in _HTTPISH:
    for h in _HDRS:
        RAW_LINES.append(l + b"\r\n" + h)
_GEM = [b"gemini://", b"gemini://h", b"gemini://h/", b"gemini://h:1965/f.txt", b"gemini://[::1]/f.txt", b"gemini://[::1/",
        b"gemini://u@h/f.txt", b"gemini:///f.txt", b"gemini://h/f.txt?q", b"gemini://h/GEMINI-QUERY/f.txt", b"gemini://h/GEMINI-QUERY/f.txt?q%0d%0a",
        b"gemini://h/GEMINI-QUERY", b"gemini://h/%0d%0a20 text/x", b"gemini://h/x%0ay", b"gemini://h/a?%0d%0a", b"gemini://h/%00", b"gemini://h/a/../f.txt",
        b"gemini://h/\xff", b"gemini://h/f.txt#frag", b"gemini://h]/", b"gemini://h/;p?q#f", b"gemini:/x", b"gemini://h//", b"gemini://h/ f.txt",
        # every part of the authority a URL parser looks at, well-formed or not
        b"gemini://h:/f.txt", b"gemini://h:0/f.txt", b"gemini://h:70/f.txt", b"gemini://h:99999/f.txt", b"gemini://h:gemini/f.txt", b"gemini://h:19\xc2\xb265/f.txt", b"gemini://h:-1/f.txt",
        b"gemini://h:1965:1/f.txt", b"gemini://h: 1965/f.txt", b"gemini://u:pw@h:1965/f.txt", b"gemini://u:pw@h:x/f.txt", b"gemini://[::1]:1965/f.txt", b"gemini://[::1]:x/f.txt", b"gemini://[v1.x]/f.txt",
        b"gemini://[::1]x/f.txt", b"gemini://h\xc3\xa9.example/f.txt", b"gemini://xn--h-9ia/f.txt", b"gemini://H.EXAMPLE:1965/f.txt", b"gemini://h:1965", b"gemini://h:65536/", b"gemini://h:+70/", b"gemini://h:7_0/",
        b"gemini://h:\xd9\xa1\xd9\xa9\xd9\xa6\xd9\xa5/f.txt", b"GEMINI://h/f.txt", b"gemini://@/f.txt", b"gemini://:@:/f.txt", b"gemini://h/f.txt?q=1&r=%zz", b"gemini://h/%zz"]
for g in _GEM:
    RAW_LINES.append(g + b"\r\n")
_SPARTAN = [b"h / 0", b"h /f.txt 0", b"h /f.txt 3\r\nabc", b"h /f.txt 9\r\nabc", b"h /f.txt 0\r\nabc", b"h /%0d%0a2 x 0", b"h /x%0ay 0",
            b"h f.txt 0", b"h /a/ 00", b"h /f.txt -1", b"h /f.txt 1e3", b"h  /f.txt 0", b"h /%00 0", b"h /p.pyg 3\r\n\xff\xfe\xfd", b"h /../x 0",
            b"h / \xc2\xb2", b"h /f.txt \xd9\xa1", b"h /f.txt \xe2\x91\xa0", b"h\xc3\xa9 /f.txt 0", b"h /f\xc3\xa9 0", b"h /f.txt 0\xc2\xa0",
            # lengths at and beyond what an integer, a read() and a digit-string conversion accept
            b"h / 9223372036854775807", b"h / 9223372036854775808", b"h /f.txt 999999999999999999999999999", b"h / " + b"9" * 4300, b"h / " + b"9" * 5000, b"h /p.pyg 18446744073709551616\r\nabc",
            b"h / 2147483648", b"h /f.txt 000000000000000000000000000000000000003\r\nabc"]
for s in _SPARTAN:
    RAW_LINES.append(s + (b"\r\n" if b"\r\n" not in s else b""))


def _requests(tier):
    """-> list of (label, data, tls)"""
    out = []
    if tier == "thorough":
        plist = alphabet.paths(2, 3)
    else:
        plist = alphabet.paths(2, 2) + [p for p in alphabet.paths(0, 3, core=alphabet.CORE_SEGMENTS[:9])]
    plist = list(dict.fromkeys(plist + EDGE_SELECTORS))
    for p in plist:
        for w in alphabet.WRAPPERS:
            for enc in alphabet.ENCODINGS:
                if enc in ("double", "raw") and w not in ("http", "gemini", "spartan"):
                    continue
                rq = alphabet.wrap(w, p, enc)
                if rq is None:
                    continue
                out.append((w + ":" + enc, p, rq[0], rq[1]))
    for line in RAW_LINES:
        for tls in (False, True):
            out.append(("raw", line, line, tls))
    return out


DIRS = {b"", b"/a", b"/a/deep", b"/emptydir", b"/md", b"/md/cur", b"/md/new", b"/md/tmp", b"/gm", b"/.cap", b"/z.zip", b"/z.zip/sub"}


def _names_dir_or_empty(sel: bytes) -> bool:
    """Does the selector, once '/.' steps, doubled and trailing slashes and a
    one-character type prefix are taken out, name a directory (whose listing may
    legitimately be empty: every child is refused under that spelling) or the
    empty file?"""
    s = alphabet.decoded_selector("gopher", sel)
    parts = [p for p in s.split(b"/") if p not in (b"", b".")]
    cands = {b"".join(b"/" + p for p in parts)}
    if parts and len(parts[0]) == 1:
        cands.add(b"".join(b"/" + p for p in parts[1:]))
    return any(c in DIRS or c in worlds.EMPTY_OK for c in cands)


_world = {}


def _get_world(handlers):
    w = _world.get(handlers)
    if w is None:
        w = rig.World(_spec_a(), handlers=handlers, tag="c03")
        _world[handlers] = w
    else:
        rig.reset_lazies()
    return w


def _case_a(handlers, data, tls, sel_hint=None):
    w = _get_world(handlers)
    r = w.serve(data, tls)
    may_be_empty = False
    if not r.out:
        # plain Gopher: an empty document or a menu without servable entries has no bytes
        m = re.match(rb"^([^\t\r\n]*)", data)
        may_be_empty = _names_dir_or_empty(m.group(1)) or (sel_hint is not None and _names_dir_or_empty(sel_hint))
    return r, judge(r, data, may_be_empty)


def _shard_a(shard, seed, tier):
    part = core.Partial()
    handlers, idxs = shard
    reqs = _requests(tier)
    timeouts = 0
    for i in idxs:
        label, p, data, tls = reqs[i]
        r, bad = _case_a(handlers, data, tls, p if label != "raw" else None)
        if isinstance(r.escaped, rig.RequestTimeout):
            timeouts += 1
            if timeouts >= 4:
                part.violation("a|%s|%s|tls=%d|escaped:RequestTimeout" % (handlers, ascii(data[:200]), tls), r.describe_error(), {"part": "a", "handlers": handlers, "data": data, "tls": tls, "sel": None})
                part.extra.setdefault("capped", []).append("shard aborted after %d requests exceeded the time limit" % timeouts)
                break
        part.evaluations += 1
        part.transitions += 1
        part.state(handlers, data, tls)
        part.outcome(r.proto, parsers.classify(FAMILY_OF_CLASS.get(r.proto, "gopher"), r.out)[0] if r.proto in FAMILY_OF_CLASS else "?", bad[0] if bad else "")
        if i % 5000 == 0:
            part.sample({"handlers": handlers, "request": data[:120], "tls": tls, "protocol": r.proto, "response_head": r.out[:80]})
        if bad:
            key = "a|%s|%s|tls=%d|%s" % (handlers, ascii(data[:200]), tls, bad[0])
            part.violation(key, bad[1], {"part": "a", "handlers": handlers, "data": data, "tls": tls, "sel": p if label != "raw" else None})
    for w in _world.values():
        w.destroy()
    _world.clear()
    return part


def _shard_logvariants(shard, seed, tier):
    """The same oracle under the other log methods the configuration offers: `file` (standard output a strict
    UTF-8 text stream, as when redirected) and `syslog` (an argument checker as strict as the real call), for
    selectors with bytes that are not UTF-8, unknown ones and known ones."""
    from . import c12

    part = core.Partial()
    method, handlers = shard
    paths = [b"/caf\xe9.txt", b"/\xff\xfe", b"/a/\xe9", b"/f.txt", b"/nope", b"/a", b"/nope\xe9/x", b"/m.mbox|/MBOX-MESSAGE/\xe9", b"URL:http://h/\xe9", b"/\xe9?q\xe9", b"/z.zip/\xe9"]
    try:
        (c12._use_filelog if method == "file" else c12._use_syslog)(True)
        for p in paths:
            for w in alphabet.WRAPPERS:
                for enc in ("std", "raw"):
                    rq = alphabet.wrap(w, p, enc)
                    if rq is None:
                        continue
                    r, bad = _case_a(handlers, rq[0], rq[1], p)
                    part.evaluations += 1
                    part.transitions += 1
                    part.state("log", method, handlers, rq[0], rq[1])
                    part.outcome("log", method, r.proto, bad[0] if bad else "")
                    if bad:
                        part.violation("a|log=%s|%s|%s|tls=%d|%s" % (method, handlers, ascii(rq[0][:200]), rq[1], bad[0]), bad[1], {"part": "log", "method": method, "handlers": handlers, "data": rq[0], "tls": rq[1], "sel": p})
    finally:
        c12._use_filelog(False)
        c12._use_syslog(False)
        for w in _world.values():
            w.destroy()
        _world.clear()
    return part


# ---------------------------------------------------------------------------
# (c) the same requests against the server as it is really deployed
# ---------------------------------------------------------------------------

DEPLOY_BASE = {"servertype": "ThreadingTCPServer", "tls": True}
DEPLOY_MODES = {
    "fork": {"tls": True}, "chroot+fork": {"chroot": True, "tls": True}, "chroot+thread": {"chroot": True, "tls": True, "servertype": "ThreadingTCPServer"},
    "relative-root": {"relroot": True, "tls": True}, "C-locale": {"tls": True, "env": {"LC_ALL": "C", "LANG": "C", "PYTHONUTF8": "0"}},
    "drop": {"drop": True, "tls": True}, "chroot+drop": {"chroot": True, "drop": True, "tls": True}, "cache-on": {"tls": True, "cachetime": 180},
}
DEPLOY_PROTOS = ("gopher", "gopherp", "gopherp_dir", "http", "wap", "spartan", "gemini", "sgopher", "https")
DEPLOY_SELS = (b"/", b"/a", b"/f.txt", b"/m.mbox", b"/m.mbox|/MBOX-MESSAGE/1", b"/md", b"/md|/MAILDIR-MESSAGE/1", b"/gm", b"/h.html", b"/t.html.tal", b"/z.zip", b"/z.zip/sub/g.txt",
               b"/nope", b"/../x", b"/caf\xe9", b"URL:http://x/", b"/enc.mbox", b"/x.gophermap", b"/a/deep/d.txt", b"/noext", b"/empty.txt", b"/p.pyg", b"/u.zip", b"/u.zip/drink", b"/u.zip/sub/up", b"/u.zip/sub",
               # these need programs from outside the document root: not asked of a jailed server
               b"/c.txt.gz", b"/s.sh")
NEEDS_OUTSIDE = (b"/c.txt.gz", b"/s.sh")


def _shard_deploy(shard, seed, tier):
    """A real `bin/pygopherd <conf>` process per deployment mode, real sockets and TLS.  Every request of a
    menu must be answered exactly as the plainest deployment answers it (port numbers and dates aside)."""
    from .. import deploy

    part = core.Partial()
    mname = shard
    mode = DEPLOY_MODES[mname]
    if not deploy.supported(mode):
        part.count("deploy_mode_not_possible_here")
        return part
    spec = _spec_a()
    base = deploy.Server(spec, DEPLOY_BASE, tag="c03d")
    srv = deploy.Server(spec, mode, tag="c03d")
    try:
        if not base.started or not srv.started:
            which = "reference" if not base.started else mname
            part.violation("c|%s|start" % mname, "the %s deployment did not come up: %r" % (which, (base if not base.started else srv).log()[-600:]), {"part": "deploy", "mode": mname})
            return part
        for sel in DEPLOY_SELS:
            if mode.get("chroot") and sel in NEEDS_OUTSIDE:
                continue
            for proto in DEPLOY_PROTOS:
                data, tls = rig.request(proto, sel)
                a, ea = base.fetch(data, tls)
                mark = len(srv.log())
                b, eb = srv.fetch(data, tls)
                na, nb = deploy.normalise(a, base.port), deploy.normalise(b, srv.port)
                part.evaluations += 2
                part.transitions += 2
                part.state("deploy", mname, proto, sel)
                verdict = ""
                if ea is not None:
                    raise core.HarnessError("reference deployment failed on %r via %s: %s" % (sel, proto, ea))
                if eb is not None or na != nb:
                    verdict = "differs"
                    newlog = srv.log()[mark:]
                    if mode.get("drop") and not mode.get("chroot") and re.search(rb"(LookupError: unknown encoding|ModuleNotFoundError|ImportError|PermissionError: \[Errno 13\][^\n]*(\.pyenv|site-packages|/lib/python))", newlog):
                        # this sandbox keeps its Python under /root, unreadable for `nobody`: a module or codec that is
                        # imported on first use cannot be imported after the drop.  Says nothing about pygopherd.
                        verdict = "inconclusive"
                        part.count("deploy_inconclusive_interpreter_unreadable")
                part.outcome("deploy", mname, proto, verdict)
                if verdict == "differs":
                    i = next((j for j in range(min(len(na), len(nb))) if na[j] != nb[j]), min(len(na), len(nb)))
                    part.violation("c|%s|%s|%s" % (mname, proto, ascii(sel)), "deployment %s answers %r via %s with %r (%d bytes%s); the plain deployment answers %r (%d bytes); first difference at byte %d; server log: %r" % (
                        mname, sel, proto, nb[max(0, i - 20):i + 60], len(nb), ", " + eb if eb else "", na[max(0, i - 20):i + 60], len(na), i, srv.log()[mark:][-300:]),
                        {"part": "deploy", "mode": mname, "proto": proto, "sel": sel})
        if not srv.alive():
            part.violation("c|%s|died" % mname, "the server process ended while being asked ordinary questions: %r" % srv.log()[-400:], {"part": "deploy", "mode": mname})
    finally:
        base.stop()
        srv.stop()
    return part


# ---------------------------------------------------------------------------
# (b) histories
# ---------------------------------------------------------------------------

MENU_B = [
    ("gopher", b"/"), ("gopherp_dir", b"/"), ("http", b"/"), ("gemini", b"/"), ("gopher", b"/a"), ("gopherp_dir", b"/a"),
    ("http", b"/a"), ("gopher", b"/z.zip/sub"), ("gopher", b"/f.txt"), ("gopherp_info", b"/f.txt"),
    ("gopher", b"/m.mbox"), ("gopher", b"/m.mbox|/MBOX-MESSAGE/2"), ("gopher", b"/gm"), ("wap", b"/a"), ("spartan", b"/"),
    ("http", b"/h.html"), ("gopher", b"/nope"), ("gopherp", b"/t.html.tal"),
    # every directory of the tree listed as a plain directory (leaves a cache file there) ...
    ("gopher", b"/md/cur"), ("gopher", b"/md/new"), ("gopher", b"/md/tmp"), ("gopher", b"/.cap"), ("gopher", b"/a/deep"), ("gopher", b"/emptydir"),
    ("gopher", b"/z.zip"), ("gopher", b"/gm/."), ("gopher", b"/md/."), ("gopher", b"/a/."), ("gopher", b"/a//"), ("http", b"/a/deep/."), ("gopher", b"/a/deep"),
    # ... and one observer per handler kind
    ("gopher", b"/md"), ("gopherp_dir", b"/md"), ("gopher", b"/md|/MAILDIR-MESSAGE/1"), ("gopher", b"/z.zip/f.txt"), ("gopherp_dir", b"/gm"),
    ("gopher", b"/x.gophermap"), ("gopher", b"/s.sh"), ("gopher", b"/p.pyg"), ("gopher", b"/c.txt.gz"), ("http", b"/noext"),
    # requests that carry a search string, and the script that shows its whole request environment without one
    ("gopher", b"/env.sh", b"needle one"), ("http", b"/env.sh", b"needle two"), ("gemini", b"/p.pyg", b"needle three"), ("gopher", b"/env.sh"), ("http", b"/env.sh"),
    ("sgopher", b"/env.sh"), ("gopher", b"/env.sh|args here"), ("gopher", b"/p.pyg"), ("gopher", b"/f.txt", b"search on a plain file"),
    # one directory under several names
    ("gopher", b"/alias-of-a"), ("http", b"/alias-of-a"), ("gopher", b"/gm/up-to-a"), ("gopher", b"/alias-of-a/deep"), ("gopher", b"/emptydir/self"), ("gopher", b"/emptydir/self/self"),
]
ENV_SH = b"#!/bin/sh\necho ENV-SCRIPT \"$@\"\nenv | grep -E '^(SERVER_|REMOTE_|SELECTOR|REQUEST|SEARCHREQUEST|GATEWAY|QUERY|HTTP_|PATH_)' | sort\n"

_DATE = [
    (re.compile(rb"Last-Modified: [^\r\n]*\r\n"), b"Last-Modified: X\r\n"),
    (re.compile(rb" Mod-Date: [^\r\n]*\r\n"), b" Mod-Date: X\r\n"),
]


def _norm(out: bytes) -> bytes:
    for rx, rep in _DATE:
        out = rx.sub(rep, out)
    return out


def _serve_b(w, i):
    proto, sel = MENU_B[i][:2]
    data, tls = rig.request(proto, sel, MENU_B[i][2] if len(MENU_B[i]) > 2 else None)
    r = w.serve(data, tls)
    return r


PLAIN_DIR_LIST = ("[url.HTMLURLHandler, gophermap.BuckGophermapHandler, mbox.MaildirFolderHandler, mbox.MaildirMessageHandler, "
                  "dir.DirHandler, html.HTMLFileTitleHandler, mbox.MBoxMessageHandler, mbox.MBoxFolderHandler, file.FileHandler]")
_b_handlers = "full"


def _fresh_b(cachetime):
    spec = worlds.standard_spec(full=True)
    spec["env.sh"] = ("exec", ENV_SH)
    w = rig.World(spec, handlers=_b_handlers, cachetime=cachetime, tag="c03b")
    # other names of the same directories, inside the document root
    os.symlink("a", os.path.join(w.root, "alias-of-a"))
    os.symlink("../a", os.path.join(w.root, "gm", "up-to-a"))
    os.symlink(".", os.path.join(w.root, "emptydir", "self"))
    return w


def _run_history(hist, cachetime, fresh_answers):
    """Serve hist on a fresh world; compare the last response with the fresh answer."""
    w = _fresh_b(cachetime)
    try:
        r = None
        for i in hist:
            r = _serve_b(w, i)
        digest = rig.tree_digest(w.root)
        lz = rig.lazies_state()
    finally:
        w.destroy()
    last = hist[-1]
    bad = None
    if r.internal_error:
        bad = ("internal-error", r.describe_error())
    elif _norm(r.out) != fresh_answers[last]:
        bad = ("differs-from-fresh", "after %r the answer to %r is %r; alone it is %r" % (
            [MENU_B[i] for i in hist[:-1]], MENU_B[last], _norm(r.out)[:300], fresh_answers[last][:300]))
    return bad, digest, lz


def _fresh_answers(cachetime):
    ans = {}
    for i in range(len(MENU_B)):
        w = _fresh_b(cachetime)
        try:
            ans[i] = _norm(_serve_b(w, i).out)
        finally:
            w.destroy()
    return ans


def _shard_b_ro(shard, seed, tier):
    """Histories of listings while the server cannot write its cache files (a tree it does not own, a read-only
    mount): every listing is still answered, at once, and as on a fresh tree."""
    from . import c11

    part = core.Partial()
    c11._patch_ro()
    old_limit = rig.REQUEST_TIME_LIMIT
    rig.REQUEST_TIME_LIMIT = 4
    fresh = _fresh_answers(180)
    hangs = 0
    try:
        for hist in shard:
            c11._ro = True
            try:
                bad, digest, lz = _run_history(hist, 180, fresh)
            finally:
                c11._ro = False
            part.evaluations += 1
            part.transitions += len(hist)
            part.state("b-ro", digest, lz, hist[-1], len(hist))
            part.outcome("b-ro", hist[-1], bad[0] if bad else "")
            if bad:
                part.violation("b-readonly|%s|%s" % ("->".join("%s:%s" % (MENU_B[i][0], MENU_B[i][1].decode()) for i in hist), bad[0]), bad[1], {"part": "b-ro", "hist": list(hist)})
                if "RequestTimeout" in bad[1]:
                    hangs += 1
                    if hangs >= 3:
                        part.extra.setdefault("capped", []).append("read-only shard aborted after %d hanging requests" % hangs)
                        break
    finally:
        rig.REQUEST_TIME_LIMIT = old_limit
    return part


def _shard_b(shard, seed, tier):
    global _b_handlers
    part = core.Partial()
    cachetime, hists = shard[:2]
    _b_handlers = shard[2] if len(shard) > 2 else "full"
    fresh = _fresh_answers(cachetime)
    for hist in hists:
        bad, digest, lz = _run_history(hist, cachetime, fresh)
        part.evaluations += 1
        part.transitions += len(hist)
        part.state("b", cachetime, digest, lz, hist[-1])
        part.outcome("b", hist[-1], bad[0] if bad else "")
        if len(part.samples) < 1:
            part.sample({"history": [list(MENU_B[i]) for i in hist], "cachetime": cachetime})
        if bad:
            key = "b|%s|cachetime=%d|%s|%s" % ("full" if _b_handlers == "full" else "plain-dir", cachetime, "->".join("%s:%s%s" % (MENU_B[i][0], MENU_B[i][1].decode(), ("?" + MENU_B[i][2].decode()) if len(MENU_B[i]) > 2 else "") for i in hist), bad[0])
            part.violation(key, bad[1], {"part": "b", "cachetime": cachetime, "hist": list(hist), "handlers": _b_handlers})
    return part


def replay(case):
    if case["part"] == "b-ro":
        p = _shard_b_ro([tuple(case["hist"])], 0, "quick")
        return (p.violations[0][0], p.violations[0][1]) if p.violations else None
    if case["part"] == "deploy":
        p = _shard_deploy(case["mode"], 0, "quick")
        for k, det, c in p.violations:
            if c.get("proto") == case.get("proto") and c.get("sel") == case.get("sel"):
                return ("differs", det)
        return None
    if case["part"] == "log":
        from . import c12

        try:
            (c12._use_filelog if case["method"] == "file" else c12._use_syslog)(True)
            r, bad = _case_a(case["handlers"], case["data"], case["tls"], case.get("sel"))
        finally:
            c12._use_filelog(False)
            c12._use_syslog(False)
            for w in _world.values():
                w.destroy()
            _world.clear()
        return (bad[0], bad[1]) if bad else None
    if case["part"] == "a":
        try:
            r, bad = _case_a(case["handlers"], case["data"], case["tls"], case.get("sel"))
        finally:
            for w in _world.values():
                w.destroy()
            _world.clear()
        return (bad[0], bad[1]) if bad else None
    global _b_handlers
    _b_handlers = case.get("handlers", "full")
    fresh = _fresh_answers(case["cachetime"])
    bad, _, _ = _run_history(case["hist"], case["cachetime"], fresh)
    return (bad[0], bad[1]) if bad else None


def run(ck):
    reqs = _requests(ck.tier)
    n = len(reqs)
    order = list(range(n))
    if ck.seed:
        import random

        random.Random(ck.seed).shuffle(order)
    shards = []
    for handlers in ("full", "default"):
        for ch in core.chunks(order, core.NPROC * 2):
            shards.append((handlers, ch))
    ck.pmap(_shard_deploy, sorted(DEPLOY_MODES))
    ck.pmap(_shard_logvariants, [(m, h) for m in ("file", "syslog") for h in ("full", "default")])
    pa = ck.pmap(_shard_a, shards)
    if pa.extra.get("capped"):
        ck.caps.append("%d shard(s) aborted early after repeated request timeouts" % len(pa.extra["capped"]))
    depth = 3 if ck.tier == "quick" else 4
    menu = range(len(MENU_B)) if ck.tier == "thorough" else range(12)
    hists = list(itertools.product(range(len(MENU_B)), repeat=2))  # every ordered pair of the full menu
    for d in range(3, depth + 1):
        hists.extend(itertools.product(menu, repeat=d))
    if ck.tier == "thorough":
        hists = [h for h in hists if len(h) < 4 or all(i < 10 for i in h)]
    bshards = []
    for cachetime in (180, 0):
        hs = hists if cachetime == 180 else [h for h in hists if len(h) <= 2]
        for ch in core.chunks(hs, core.NPROC * 2):
            bshards.append((cachetime, ch))
        # the plain DirHandler list (dot-files are listed there): ordered pairs
        for ch in core.chunks([h for h in hists if len(h) == 2], core.NPROC):
            bshards.append((cachetime, ch, PLAIN_DIR_LIST))
    listing_idx = [i for i, m in enumerate(MENU_B) if len(m) == 2 and m[1] in (b"/", b"/a", b"/md/cur", b"/emptydir", b"/gm", b"/a/deep", b"/alias-of-a", b"/.cap")][:10]
    ro_hists = [(i, j) for i in listing_idx for j in listing_idx] + [(i, j, k) for i in listing_idx[:4] for j in listing_idx[:4] for k in listing_idx[:4]]
    ck.pmap(_shard_b_ro, core.chunks(ro_hists, core.NPROC))
    ck.pmap(_shard_b, bshards)
    ck.rule = (
        "(a) every request = wrapper x encoding x path (<=2 segments over %d segments x 3 separators, <=3 over the core alphabet, "
        "plus %d edge selectors) + %d raw first lines x {plain,TLS}, x handler lists {full, default}; distinct = (protocol, response class, verdict). "
        "(b) all ordered pairs over the full menu of read-only requests and all histories of length 3..%d over the first %d of them with the cache on, pairs with the cache off; "
        "state = (tree digest incl. cache files, lazies initialised, last request)"
        % (len(alphabet.SEGMENTS), len(EDGE_SELECTORS), len(RAW_LINES), depth, len(list(menu)))
    )
    ck.bounds = {"requests_a": n, "history_depth": depth, "history_menu": len(list(menu))}
    ck.assumptions = [
        "content tree is the well-formed standard tree of pgmc/worlds.py",
        "bounded time is a 10 s alarm per request",
        "a raw Gopher document may be any byte string, so the plain-Gopher validator only rejects an error line mixed with other output and empty replies for non-empty objects",
    ]

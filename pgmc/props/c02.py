"""C02 — protocol autodetection is deterministic, ordered and strict about TLS.

E1: every first line of a bounded alphabet x {TLS, plaintext} x header blocks is
given to the real ProtocolMultiplexer.getProtocol under the shipped order, its
reversal, all rotations and all adjacent transpositions, and in isolation per
protocol; oracles: totality, TLS strictness, agreement with a reference
classifier, first-acceptor-wins (side-effect freedom), determinism.
Sniff: all 256 first bytes x {context, no context} on a live socketpair through
the real BaseServer.wrap_socket; one real TLS/plain round trip per shipped
protocol class through a listening ThreadingTCPServer.
"""
from __future__ import annotations

import io
import itertools
import os
import socket
import ssl
import threading

from .. import core, ref, rig

ID = "C02"

FIELDS = [
    b"GET", b"HEAD", b"POST", b"HTTP/1.0", b"HTTP/", b"gemini://h/p", b"gemini:/", b"/sel", b"/wap/x", b"h.example",
    b"0", b"12", b"-1", b"x", b"+", b"!", b"$", b"+text/plain", b"", b"\xc3\xa9", b"\xff",
    # near misses of every documented shape
    b"HTTP", b"http/1.0", b"XHTTP/1.0", b"get", b"GETX", b"Gemini://h/", b"xgemini://h/", b"!x", b"$x", b"x+", b"1e3", b"\xd9\xa1", b"/wa", b"/wap", b"/wapx", b"/wap?q", b"/wap/",
]
SMALL_FIELDS = [b"GET", b"HTTP/1.0", b"/sel", b"/wap/x", b"0", b"+", b"!", b"", b"h.example", b"gemini://h/p"]
SEPS = [b" ", b"  ", b"\t", b"\t\t"]
TERMS = [b"\r\n", b"\n", b""]
HEADER_BLOCKS = [
    b"",
    b"Accept: text/html, text/vnd.wap.wml\r\nx-wap-profile: http://x\r\n\r\n",
    b"Accept: text/vnd.wap.wml\r\n\r\n",
    b"x-up-devcap-max-pdu: 1\r\nAccept: text/html\r\n\r\n",
    b"Accept: text/html\r\n\r\n",
    b"Accept:text/vnd.wap.wml\r\nX-Up-Devcap-Max-Pdu: 3\r\n\r\n",
    b"ACCEPT: image/gif,text/vnd.wap.wml;q=1\r\nX-WAP-PROFILE: x\r\n\r\n",
    b"Accept: text/vnd.wap.wml\r\nx-wap-profile: p\r\n\r\n",
    b"Accept: text/vnd.wap.wml, text/html\r\nx-up-devcap-max-pdu: 1\r\n\r\n",
    b"Accept:\ttext/vnd.wap.wml\r\nx-wap-profile: p\r\n\r\n",
    b"Accept: text/vnd.wap.wmlx\r\nx-wap-profile: p\r\n\r\n",
    b"x-wap-profile: p\r\n\r\nAccept: text/vnd.wap.wml\r\n\r\n",
]

PROTO_EXPR = {
    "wap": "wap.WAPProtocol", "gemini": "gemini.GeminiProtocol", "http": "http.HTTPProtocol", "https": "http.HTTPSProtocol",
    "spartan": "spartan.SpartanProtocol", "gopherp": "gopherp.GopherPlusProtocol", "sgopherp": "gopherp.SecureGopherPlusProtocol",
    "gopher": "rfc1436.GopherProtocol", "sgopher": "rfc1436.SecureGopherProtocol",
}
NAME_OF_CLASS = {v: k for k, v in ref.CLASSNAME.items()}


def lines(tier):
    seen = set()
    out = []

    def add(l):
        if l not in seen:
            seen.add(l)
            out.append(l)

    for f in FIELDS:
        for t in TERMS:
            add(f + t)
    for a, b in itertools.product(FIELDS, repeat=2):
        for s in SEPS:
            for t in TERMS:
                add(a + s + b + t)
    three = FIELDS
    for a, b, c in itertools.product(three, repeat=3):
        for s in SEPS:
            add(a + s + b + s + c + b"\r\n")
    mixed = FIELDS if tier == "thorough" else SMALL_FIELDS
    for a, b, c in itertools.product(mixed, repeat=3):
        for s1, s2 in itertools.product(SEPS, repeat=2):
            if s1 != s2:
                add(a + s1 + b + s2 + c + b"\r\n")
                if tier == "thorough":
                    add(a + s1 + b + s2 + c + b"\n")
    four = (SMALL_FIELDS + [b"HEAD", b"HTTP/", b"12", b"$", b"+text/plain", b"\xff", b"/wap", b"Gemini://h/", b"x"]) if tier == "thorough" else SMALL_FIELDS
    for combo in itertools.product(four, repeat=4):
        for s in ((b" ", b"\t") if tier == "quick" else SEPS):
            add(s.join(combo) + b"\r\n")
    # leading / trailing blanks
    for l in [b" GET / HTTP/1.0\r\n", b"GET / HTTP/1.0 \r\n", b"GET / HTTP/1.0\t\r\n", b"\tGET / HTTP/1.0\r\n", b" h / 0\r\n", b"h / 0 \r\n",
              b" gemini://h/\r\n", b"/sel\t+ \r\n", b"/sel\t +\r\n", b"/sel\t\r\n", b"/sel\t\t\r\n", b"/sel\tq\t\r\n", b"\r\n", b"\n", b"", b"\t\r\n", b"\t\t\t\r\n"]:
        add(l)
    # characters that some notion of "white space" or "line end" strips or splits on, at either edge of a
    # line of every documented shape
    edge = [b"\xc2\xa0", b"\xc2\x85", b"\xe2\x80\xa8", b"\xe2\x80\xa9", b"\xe3\x80\x80", b"\xe2\x80\x83", b"\xef\xbb\xbf", b"\x0b", b"\x0c", b"\x1c", b"\x1d", b"\x1e", b"\x1f", b"\x85", b"\xa0", b"\x00"]
    shapes = [b"GET / HTTP/1.0", b"HEAD /x HTTP/1.1", b"GET /wap/x HTTP/1.0", b"h.example /sel 0", b"h.example / 12", b"gemini://h/p", b"/sel\t+", b"/sel\t$", b"/sel\t!", b"/sel\tquery", b"/sel", b"/sel\tq\t+"]
    for sh in shapes:
        for e in edge:
            for t in TERMS:
                add(e + sh + t)
                add(sh + e + t)
            add(e + sh + e + b"\r\n")
            # ... and between the fields
            if b" " in sh:
                add(sh.replace(b" ", b" " + e, 1) + b"\r\n")
                add(sh.replace(b" ", e, 1) + b"\r\n")
    return out


def orders():
    base = ref.SHIPPED_ORDER
    out = [list(base), list(reversed(base))]
    for i in range(1, len(base)):
        out.append(base[i:] + base[:i])
    for i in range(len(base) - 1):
        o = list(base)
        o[i], o[i + 1] = o[i + 1], o[i]
        out.append(o)
    uniq = []
    for o in out:
        if o not in uniq:
            uniq.append(o)
    return uniq


class _RH:
    def __init__(self, tls):
        self.request = (rig.FakeTLSSock if tls else rig.FakeSock)(b"")
        self.client_address = rig.CLIENT_ADDR


_cfg = {}
_server = None


def _config_for(order):
    """ONE configuration object for the whole process; the protocol list is
    re-set in place for every order (a server whose configuration is changed or
    reloaded must follow the list it has now)."""
    c = _cfg.get("cfg")
    if c is None:
        root = rig.fresh_dir("c02")
        c = rig.make_config(root)
        _cfg["cfg"] = c
    want = "[" + ", ".join(PROTO_EXPR[p] for p in order) + "]"
    if _cfg.get("cur") != want:
        c.set("protocols.ProtocolMultiplexer", "protocols", want)
        _cfg["cur"] = want
    return c


def _winner(order, line: bytes, tls: bool, hdr: bytes):
    """Run the real multiplexer once on a fresh connection -> proto name | None | ('exc', repr)"""
    from pygopherd.protocols import ProtocolMultiplexer

    global _server
    c = _config_for(order)
    if _server is None:
        _server = rig.make_server(c)
    rh = _RH(tls)
    rfile = io.BytesIO(hdr)
    try:
        p = ProtocolMultiplexer.getProtocol(line.decode(errors="surrogateescape"), _server, rh, rfile, io.BytesIO(), c)
    except Exception as e:  # noqa
        return ("exc", "%s: %s" % (type(e).__name__, e)), None
    if p is None:
        return None, None
    return NAME_OF_CLASS.get(type(p).__name__, type(p).__name__), p


def _check_line(part, line, tls, hdr, all_orders):
    sline = line.decode(errors="surrogateescape")
    case = {"line": line, "tls": tls, "hdr": hdr}
    key0 = "line=%s|tls=%d|hdr=%s|" % (ascii(line), tls, ascii(hdr[:40]))
    bad = []
    # in isolation
    A = []
    for p in ref.SHIPPED_ORDER:
        w, _ = _winner([p], line, tls, hdr)
        part.transitions += 1
        if isinstance(w, tuple):
            bad.append(("isolation-exception:" + p, w[1]))
        elif w is not None:
            A.append(p)
    refA = [p for p in ref.SHIPPED_ORDER if ref.accepts(p, sline, tls, ref.parse_headers(hdr))]
    if A != refA and not bad:
        bad.append(("shape", "protocols accepting in isolation %r, documented shapes say %r" % (A, refA)))
    for order in all_orders:
        w, pobj = _winner(order, line, tls, hdr)
        part.transitions += 1
        if isinstance(w, tuple):
            bad.append(("exception", w[1]))
            continue
        if order == ref.SHIPPED_ORDER:
            if w is None:
                bad.append(("unclaimed", "no protocol of the shipped list claims the line"))
                continue
            if ref.SECURE[w] != tls:
                bad.append(("tls-mismatch", "%s answered a %s connection" % (w, "TLS" if tls else "plaintext")))
            exp = ref.classify(sline, tls, hdr)
            if w != exp:
                bad.append(("misclassified", "claimed by %s, reference says %s" % (w, exp)))
            w2, _ = _winner(order, line, tls, hdr)
            if w2 != w:
                bad.append(("nondeterministic", "%s then %s" % (w, w2)))
        first = next((p for p in order if p in refA), None)
        if w != first:
            bad.append(("order", "under order %s the winner is %s, first acceptor is %s" % (",".join(order), w, first)))
    part.evaluations += 1
    part.state(line, tls, hdr)
    part.outcome(tuple(A), tls)
    seen = set()
    for cls, detail in bad:
        if cls in seen:
            continue
        seen.add(cls)
        part.violation(key0 + cls, detail, dict(case, kind="line"))
    return bad


def _is_httpish(line: bytes):
    return line.startswith((b"GET", b"HEAD")) and b"HTTP/" in line


def _shard(shard, seed, tier):
    part = core.Partial()
    ords = orders()
    for i, line in shard:
        for tls in (False, True):
            hdrs = HEADER_BLOCKS if _is_httpish(line) else [b""]
            for hdr in hdrs:
                _check_line(part, line, tls, hdr, ords)
        if i % 20000 == 0:
            part.sample({"line": line, "orders": len(ords)})
    return part


# ---------------------------------------------------------------------------
# sniff
# ---------------------------------------------------------------------------


class _StubContext:
    def __init__(self):
        self.wrapped = 0

    def wrap_socket(self, sock, server_side=False):
        self.wrapped += 1
        return sock


def _sniff(part):
    config = rig.make_config(rig.fresh_dir("c02s"))
    payload_tail = b"rest-of-request\r\n"
    for with_ctx in (True, False):
        for b in range(256):
            server = rig.make_server(config)
            ctx = _StubContext() if with_ctx else None
            server.context = ctx
            a, c = socket.socketpair()
            a.settimeout(5)
            payload = bytes([b]) + payload_tail
            c.sendall(payload)
            try:
                ret = server.wrap_socket(a)
                got = a.recv(4096)
            except Exception as e:  # noqa
                part.violation("sniff|byte=%d|ctx=%d|exception" % (b, with_ctx), "%s: %s" % (type(e).__name__, e), {"kind": "sniff", "byte": b, "ctx": with_ctx})
                a.close()
                c.close()
                continue
            a.close()
            c.close()
            part.evaluations += 1
            part.transitions += 1
            part.state("sniff", b, with_ctx)
            wrapped = bool(ctx and ctx.wrapped)
            part.outcome("sniff", wrapped)
            want = with_ctx and b == 0x16
            if wrapped != want:
                part.violation("sniff|byte=%d|ctx=%d|wrap" % (b, with_ctx), "wrapped=%s, expected %s" % (wrapped, want), {"kind": "sniff", "byte": b, "ctx": with_ctx})
            if got != payload:
                part.violation("sniff|byte=%d|ctx=%d|consumed" % (b, with_ctx), "after the sniff %r is readable, sent %r" % (got, payload), {"kind": "sniff", "byte": b, "ctx": with_ctx})
            if ret is not a:
                part.violation("sniff|byte=%d|ctx=%d|identity" % (b, with_ctx), "wrap_socket returned another object", {"kind": "sniff", "byte": b, "ctx": with_ctx})


def _silent(part):
    """A connection that says nothing: with a receive timeout the sniff must give up with an
    error; it must never decide 'plaintext' (or 'TLS') without having seen the first byte."""
    config = rig.make_config(rig.fresh_dir("c02q"))
    for with_ctx in (True,):
        server = rig.make_server(config)
        ctx = _StubContext()
        server.context = ctx
        a, c = socket.socketpair()
        a.settimeout(0.3)
        decided = None
        try:
            ret = server.wrap_socket(a)
            decided = "returned the %s socket" % ("wrapped" if ctx.wrapped else "plain")
        except (socket.timeout, BlockingIOError, OSError):
            decided = None
        part.evaluations += 1
        part.transitions += 1
        part.state("silent", with_ctx)
        part.outcome("silent", decided is None)
        if decided is not None:
            part.violation("sniff|silent|decided", "nothing was sent, the receive timeout expired, and wrap_socket %s: the connection was classified without its first byte" % decided, {"kind": "sniff", "byte": -1, "ctx": with_ctx})
        a.close()
        c.close()


def _live(part):
    """One real round trip per shipped protocol class through a listening server
    (real TLS handshake for the secure ones)."""
    import pygopherd.server

    root = rig.fresh_dir("c02l")
    rig.write_file(os.path.join(root, "f.txt"), b"live file\n")
    config = rig.make_config(root)
    rig.init_mime(config)
    rig.reset_lazies()
    ctx = ssl.create_default_context(ssl.Purpose.CLIENT_AUTH)
    ctx.load_cert_chain(os.path.join(rig.REPO, "testdata", "demo.crt"), os.path.join(rig.REPO, "testdata", "demo.key"))
    server = pygopherd.server.ThreadingTCPServer(config, ("127.0.0.1", 0), pygopherd.server.GopherRequestHandler, context=ctx)
    server.daemon_threads = True
    t = threading.Thread(target=server.serve_forever, kwargs={"poll_interval": 0.05}, daemon=True)
    t.start()
    addr = server.server_address
    cases = [
        ("gopher", b"/f.txt\r\n", False, b"live file\n"),
        ("sgopher", b"/f.txt\r\n", True, b"live file\n"),
        ("gopherp", b"/f.txt\t+\r\n", False, b"+10\r\nlive file\n"),
        ("sgopherp", b"/f.txt\t+\r\n", True, b"+10\r\nlive file\n"),
        ("http", b"GET /f.txt HTTP/1.0\r\n\r\n", False, None),
        ("https", b"GET /f.txt HTTP/1.0\r\n\r\n", True, None),
        ("wap", b"GET /wap/f.txt HTTP/1.0\r\n\r\n", False, None),
        ("gemini", b"gemini://h/f.txt\r\n", True, b"20 text/plain\r\nlive file\n"),
        ("spartan", b"h /f.txt 0\r\n", False, b"2 text/plain\r\nlive file\n"),
    ]
    try:
        for name, req, tls, want in cases:
            s = socket.create_connection(addr, timeout=10)
            if tls:
                cctx = ssl.SSLContext(ssl.PROTOCOL_TLS_CLIENT)
                cctx.check_hostname = False
                cctx.verify_mode = ssl.CERT_NONE
                s = cctx.wrap_socket(s)
            s.sendall(req)
            buf = b""
            while True:
                try:
                    ch = s.recv(65536)
                except (ssl.SSLError, OSError):
                    break
                if not ch:
                    break
                buf += ch
            s.close()
            part.evaluations += 1
            part.transitions += 1
            part.state("live", name)
            part.outcome("live", name, buf[:12])
            ok = (buf == want) if want is not None else (buf.startswith(b"HTTP/1.0 200 OK\r\n") and b"live file" in buf)
            if name == "wap":
                ok = ok and b"text/vnd.wap.wml" in buf
            if not ok:
                part.violation("live|%s" % name, "real %s round trip returned %r" % (name, buf[:200]), {"kind": "live", "name": name})
    finally:
        server.shutdown()
        server.server_close()
        rig.reset_lazies()


WAPTOPS = ["/wap.wml", "/m+", "/w(ap", "/wap/", "/WAP", "/wap$", "/w[a]p", "/wap|x", "/w.p", "/wap*", "/mobile/wap", "/^wap", "/wa?p", "/wap\\d"]


def _shard_waptop(shard, seed, tier):
    """The WAP prefix is configuration: whatever characters it contains, it is a literal path prefix."""
    part = core.Partial()
    for top in shard:
        c = _config_for(ref.SHIPPED_ORDER)
        c.set("protocols.wap.WAPProtocol", "waptop", top)
        try:
            paths = {top, top + "/", top + "/x", top + "?q", top + "x", top + "/x/y", "/" + top.strip("/"), top.lower(), top.upper(), "/wap/x", "/x" + top, "/x"}
            # near misses: each character of the prefix replaced by another one, dropped, or doubled
            for i in range(1, len(top)):
                for r in ("-", "a", "", top[i] * 2, "/"):
                    paths.add(top[:i] + r + top[i + 1:] + "/x")
            for pth in sorted(paths):
                for method in ("GET", "HEAD"):
                    line = ("%s %s HTTP/1.0\r\n" % (method, pth)).encode()
                    for hdr in (b"\r\n", b"Accept: text/vnd.wap.wml\r\n\r\n"):
                        got, _ = _winner(ref.SHIPPED_ORDER, line, False, hdr)
                        headers = {}
                        for hl in hdr.split(b"\r\n"):
                            if b":" in hl:
                                k, v = hl.split(b":", 1)
                                headers[k.decode().lower()] = v.decode()
                        want = next((p for p in ref.SHIPPED_ORDER if ref.accepts(p, line.decode().rstrip("\r\n"), False, headers, waptop=top)), None)
                        part.evaluations += 1
                        part.transitions += 1
                        part.state("waptop", top, pth, method, hdr)
                        part.outcome("waptop", top, got if not isinstance(got, tuple) else "exc", want)
                        if got != want:
                            part.violation("waptop|%s|%s|%s|%s" % (top, method, pth, len(hdr) > 2), "waptop = %r: the line %r (headers %r) is claimed by %r, the documented rule (literal prefix %r on a path boundary) gives %r" % (top, line, hdr, got, top, want),
                                           {"kind": "waptop", "top": top})
        finally:
            c.set("protocols.wap.WAPProtocol", "waptop", "/wap")
    return part


def _shard_aux(shard, seed, tier):
    part = core.Partial()
    if shard == "sniff":
        _sniff(part)
        _silent(part)
    else:
        _live(part)
    return part


def replay(case):
    if case.get("kind") == "waptop":
        p = _shard_waptop([case["top"]], 0, "quick")
        return (p.violations[0][0], p.violations[0][1]) if p.violations else None
    part = core.Partial()
    if case["kind"] == "line":
        bad = _check_line(part, case["line"], case["tls"], case["hdr"], orders())
        return (bad[0][0], bad[0][1]) if bad else None
    if case["kind"] == "sniff":
        _sniff(part)
        _silent(part)
    else:
        _live(part)
    if part.violations:
        return part.violations[0][0], part.violations[0][1]
    return None


def _run_waptop(ck):
    ck.pmap(_shard_waptop, [[t] for t in WAPTOPS])


def run(ck):
    _run_waptop(ck)
    ls = lines(ck.tier)
    idx = list(enumerate(ls))
    if ck.seed:
        import random

        random.Random(ck.seed).shuffle(idx)
    ck.pmap(_shard, core.chunks(idx, core.NPROC * 4))
    ck.pmap(_shard_aux, ["sniff", "live"])
    ck.rule = (
        "first lines = 1..4 fields over a %d-token alphabet joined by SP/SPSP/TAB/TABTAB (uniform for 3 fields over the full alphabet, mixed over %d tokens; "
        "4 fields over %d tokens) x 3 terminators, x {plaintext, TLS}, x %d header blocks for HTTP-shaped lines; each under %d protocol orders "
        "+ 9 single-protocol lists; plus 256 first bytes x {context, none} on a socketpair and 9 live round trips. distinct = (set of accepting protocols, tls)"
        % (len(FIELDS), len(FIELDS if ck.tier == "thorough" else SMALL_FIELDS), len(FIELDS if ck.tier == "thorough" else SMALL_FIELDS), len(HEADER_BLOCKS), len(orders()))
    )
    ck.bounds = {"lines": len(ls), "orders": len(orders())}
    ck.assumptions = ["the reference classifier in pgmc/ref.py is a faithful reading of each protocol's documented request shape",
                      "OpenSSL's handling of partial hellos is out of scope"]

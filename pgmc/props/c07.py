"""C07 — a listing is exactly the visible entries, once each, in a stable order.

E1 x E2: every subset of <= 3 names of a pool built from the shipped ignore
pattern (one match and one near miss per alternative, dot-files, directories,
names that tie after extension stripping) x ALL permutations of the directory
enumeration; curated 6-entry directories with link files x all 720 permutations;
both directory handlers.  Oracle: reference visible set (exactly once, nothing
else), identical rendering under every permutation, name order for DirHandler,
and every entry kept out of the listing retrievable by exact selector.
"""
from __future__ import annotations

import itertools
import os
import re

from .. import core, parsers, rig
from .c12 import DIRLIST

ID = "C07"

FILES = [
    "plain.txt", "zeta", "libx", "xlib", "a~", "a~b", ".cachex", ".cache.pygopherd.dirx", "x.forward", ".forward", "a.ask", "a.askx",
    "a.3d", "a.3dx", "robots.txt", "xrobots.txt", "robotsxtxt", "xcap", "nohup.out", "veronica.ctl", "veronicaXctl", "n.abstract",
    "n.keyboards", "n.keywords", ".hidden", ".message", "xmessage", "a.txt", "a.text", "B.txt", ".where", "binx",
]
DIRS = ["lib", "bin", "etc", "dev", "lost+found", "lost found", ".cap", "sub", ".dotdir", "devel"]
POOL = FILES + DIRS


def file_bytes(name):
    return ("content of %s\n" % name).encode()


_perm = None  # current permutation function for listdir
_perm_sel = "/t"
_patched = False


def _patch():
    global _patched
    if _patched:
        return
    from pygopherd.handlers.base import VFS_Real

    orig = VFS_Real.listdir

    def listdir(self, selector):
        out = orig(self, selector)
        if _perm is not None and type(self) is VFS_Real and selector.rstrip("/") == _perm_sel:
            return _perm(out)
        return out

    VFS_Real.listdir = listdir
    _patched = True


def reference_visible(names, handler, ignorepatt, hidden=(), sel="/t"):
    vis = []
    for n in names:
        if handler == "umn" and n.startswith("."):
            continue
        if re.search(ignorepatt, sel + "/" + n):
            continue
        if n in hidden:
            continue
        vis.append(n)
    return sorted(vis)


def _list(w, proto="gopher", sel="/t"):
    r = w.serve(*rig.request(proto, sel or "/"))
    if r.internal_error:
        return r, None
    try:
        return r, parsers.parse_gopher_menu(r.out)
    except ValueError:
        return r, None


LONGBASE = "/".join(["L" * 200 + str(i) for i in range(6)])  # selectors of > 1024 and (with a 200-character child) > 1400 characters
BASES = ["t", "forms.ask", ".cache-2019", "deep/nest~/d", "", LONGBASE]  # "" = the document root itself


# administrators extend the pattern: alternatives containing a literal blank, a '#', a character class with a blank
SHIPPED_PATT = None
IGNORE_VARIANTS = [r"|/Old Stuff$", r"|/#[^/]*#$", r"|/[# ]tmp$", r"|\.bak$|/core$"]
VARIANT_POOL = ["Old Stuff", "OldStuff", "#auto#", "x#y", "a#", " tmp", "#tmp", "xtmp", "n.bak", "core", "score", "plain.txt"]


def _check_dir(names, handler, extra_files=None, hidden=(), check_retrieval=True, all_perms=True, max_perms=None, base="t", must_list=(), must_not_list=(), patt_extra=None):
    """Build /t with `names`, list it under every permutation. -> list of (class, detail)"""
    global _perm, _perm_sel
    _patch()
    _perm_sel = "/" + base if base else ""
    spec = {}
    for n in names:
        spec[n] = {"inner.txt": b"i\n"} if n in DIRS else file_bytes(n)
    if extra_files:
        spec.update(extra_files)
    tree = spec
    for comp in reversed([c for c in base.split("/") if c]):
        tree = {comp: tree}
    sel = "/" + base if base else ""
    over = {}
    if patt_extra is not None:
        shipped = rig.make_config("/nonexistent").get("handlers.dir.DirHandler", "ignorepatt")
        over["handlers_DOT_dir_DOT_DirHandler__ignorepatt"] = shipped + patt_extra
    w = rig.World(tree, handlers=("default" if handler == "umn" else DIRLIST), cachetime=0, tag="c07", **over)
    bad = []
    nperm = 0
    try:
        ignorepatt = w.config.get("handlers.dir.DirHandler", "ignorepatt")
        allnames = sorted(spec)
        expected = reference_visible(allnames, handler, ignorepatt, hidden, sel)
        perms = itertools.permutations(range(len(allnames)))
        first_out = None
        for pi in perms:
            nperm += 1
            if max_perms and nperm > max_perms:
                break

            def perm(out, pi=pi):
                own = [n for n in out if n == ".cache.pygopherd.dir"]  # the server's own cache file
                s = sorted(n for n in out if n != ".cache.pygopherd.dir")
                if len(s) != len(pi):
                    raise core.HarnessError("directory changed under the harness: %r" % (out,))
                return [s[i] for i in pi] + own

            _perm = perm
            r, entries = _list(w, sel=sel)
            _perm = None
            if entries is None:
                bad.append(("listing-failed", "listing under enumeration order %r: %s %r" % ([allnames[i] for i in pi], r.describe_error(), r.out[:100])))
                break
            if first_out is None:
                first_out = r.out
                pre = sel.encode() + b"/"
                local = [e for e in entries if not e["info"] and e["target"][0] == "local" and e["target"][1].startswith(pre)]
                got = [e["target"][1][len(pre):].decode("utf-8", "surrogateescape") for e in local]
                for n in must_list:
                    if n not in got:
                        bad.append(("missing", "entry %r must be listed, listing has %r" % (n, got)))
                for n in must_not_list:
                    if n in got:
                        bad.append(("hidden-entry-listed", "entry %r is hidden by metadata but listed: %r" % (n, got)))
                if len(set(got)) != len(got):
                    bad.append(("duplicate", "directory %r: an entry is listed twice: %r" % (allnames, got)))
                if not extra_files:
                    if sorted(got) != expected:
                        bad.append(("visible-set", "directory %r: listed %r, visible entries are %r" % (allnames, sorted(got), expected)))
                    if handler == "dir" and got != sorted(got):
                        bad.append(("unsorted", "DirHandler listing not in name order: %r" % got))
            elif r.out != first_out:
                bad.append(("order-dependent", "directory %r: listing depends on the enumeration order %r: %r vs %r" % (
                    allnames, [allnames[i] for i in pi], r.out[:300], first_out[:300])))
                break
            if not all_perms:
                break
        if check_retrieval and not extra_files:
            for n in allnames:
                if n in expected:
                    continue
                r = w.serve(*rig.request("gopher", sel + "/" + n))
                if n in DIRS:
                    ok = not r.internal_error and not parsers.is_gopher_error(r.out)
                else:
                    ok = r.out == file_bytes(n)
                if not ok:
                    bad.append(("unretrievable", "entry %r is kept out of the listing but %s/%s answers %r" % (n, sel, n, r.out[:100])))
    finally:
        _perm = None
        w.destroy()
    return bad, nperm


CURATED = [
    # two link files overriding the same entry: the winner must not depend on readdir order
    ({"f.txt": b"f\n", "g.txt": b"g\n", ".names": b"Path=./f.txt\nName=From Names\nNumb=2\n", ".links": b"Path=./f.txt\nName=From Links\nNumb=1\n",
      "sub": {"x": b"x"}, "h.txt": b"h\n"}, "two link files override the same entry"),
    ({"f.txt": b"f\n", ".a": b"Name=New A\nType=1\nPath=/a\nHost=h1\nPort=70\n", ".b": b"Name=New A\nType=1\nPath=/b\nHost=h2\nPort=70\n",
      "g.txt": b"g\n", "a.txt": b"a\n", "a.text": b"a2\n"}, "two link files add entries with the same title; two files with the same stripped name"),
    ({"f.txt": b"f\n", ".names": b"Type=X\nPath=./f.txt\n", ".zlinks": b"Path=./f.txt\nName=Renamed\n", "g.txt": b"g\n", "b": {"x": b"x"}, "c.html": b"<title>T</title>"},
     "one link file hides an entry another renames", {"must_not_list": ["f.txt"], "must_list": ["g.txt", "b", "c.html"]}),
    ({"f.txt": b"f\n", "g.txt": b"g\n", ".names": b"Type=X\nPath=./f.txt\n\nType=X\nPath=./f.txt\n\nType=X\nPath=./gone.txt\n", ".more": b"Type=X\nPath=./f.txt\n", "k.txt": b"k\n"},
     "the same entry hidden twice in one link file and once more in another", {"must_not_list": ["f.txt"], "must_list": ["g.txt", "k.txt"]}),
    ({"f.txt": b"f\n", "g.txt": b"g\n", ".names": b"Type=X\nPath=./f.txt\n\nPath=./g.txt\nName=Caf\xe9 in Latin-1\n", "h.txt": b"h\n", "sub": {"x": b"x"}},
     "a link file that hides an entry and also contains a byte that is not UTF-8", {"must_not_list": ["f.txt"], "must_list": ["g.txt", "h.txt", "sub"]}),
    ({"f.txt": b"f\n", "b": {"x": b"x"}, "c": {"y": b"y"}, ".cap": {"b": b"Type=X\n", "f.txt": b"Type=-\n"}, "k.txt": b"k\n"},
     ".cap files hiding a directory and a file", {"must_not_list": ["b", "f.txt"], "must_list": ["c", "k.txt"]}),
    ({"f.txt": b"f\n", "b": {"x": b"x"}, "c": {"y": b"y"}, "e": {"z": b"z"}, ".names": b"Path=./b/\nName=Renamed Dir\nNumb=1\n\nType=X\nPath=./c/\n\nPath=~/e/\nName=Tilde Dir\n", "k.txt": b"k\n"},
     "override and hide blocks whose relative path ends in a slash", {"must_not_list": ["c"], "must_list": ["b", "e", "f.txt", "k.txt"]}),
    ({"1.txt": b"1", "2.txt": b"2", "3.txt": b"3", ".names": b"Path=./1.txt\nNumb=3\n\nPath=./2.txt\nNumb=3\n\nPath=./3.txt\nNumb=-1\n", ".cap": {"2.txt": b"Name=Capped\n"}, "z": {}},
     "equal Numb values, a .cap override and a negative number"),
]


def _shard(shard, seed, tier):
    part = core.Partial()
    for item in shard:
        if item[0] == "subset":
            _, handler, names = item[:3]
            base = item[3] if len(item) > 3 else "t"
            pe = IGNORE_VARIANTS[item[4]] if len(item) > 4 else None
            bad, nperm = _check_dir(list(names), handler, base=base, patt_extra=pe)
            label = "subset|%s|%s|%s%s" % (handler, base, ",".join(names), "|patt+%s" % pe if pe else "")
            case = {"kind": "subset", "handler": handler, "names": list(names), "base": base, "patt": item[4] if len(item) > 4 else None}
        else:
            _, handler, i = item
            files, why = CURATED[i][:2]
            exp = CURATED[i][2] if len(CURATED[i]) > 2 and handler == "umn" else {}
            bad, nperm = _check_dir([], handler, extra_files=files, check_retrieval=False, **exp)
            label = "curated|%s|%d" % (handler, i)
            case = {"kind": "curated", "handler": handler, "i": i}
        part.evaluations += nperm
        part.transitions += nperm
        part.state(label)
        part.outcome(item[0], item[1], tuple(sorted(set(b[0] for b in bad))), len(item[2]) if item[0] == "subset" else item[2])
        part.sample({"case": label, "enumeration_orders": nperm}, limit=2)
        seen = set()
        for cls, det in bad:
            if cls in seen:
                continue
            seen.add(cls)
            part.violation(label + "|" + cls, det, case)
    return part


def replay(case):
    if case["kind"] == "subset":
        bad, _ = _check_dir(case["names"], case["handler"], base=case.get("base", "t"), patt_extra=IGNORE_VARIANTS[case["patt"]] if case.get("patt") is not None else None)
    else:
        exp = CURATED[case["i"]][2] if len(CURATED[case["i"]]) > 2 and case["handler"] == "umn" else {}
        bad, _ = _check_dir([], case["handler"], extra_files=CURATED[case["i"]][0], check_retrieval=False, **exp)
    return bad[0] if bad else None


def run(ck):
    items = []
    k = 3 if ck.tier == "quick" else 4
    pool = POOL
    for handler in ("umn", "dir"):
        for n in range(1, k + 1):
            for names in itertools.combinations(pool, n):
                if n == 4 and not (names[0] in FILES[:12]):
                    continue
                items.append(("subset", handler, names))
        # the directory's own name on both sides of the unanchored alternatives of the pattern
        for base in BASES[1:]:
            for n in (1, 2):
                for names in itertools.combinations(pool, n):
                    if n == 2 and not (names[0] in FILES[:10] or names[1] in DIRS[:4]):
                        continue
                    items.append(("subset", handler, names, base))
        for i in range(len(CURATED)):
            items.append(("curated", handler, i))
        for pi in range(len(IGNORE_VARIANTS)):
            for n in (1, 2):
                for names in itertools.combinations(VARIANT_POOL, n):
                    items.append(("subset", handler, names, "t", pi))
    if ck.seed:
        import random

        random.Random(ck.seed).shuffle(items)
    ck.pmap(_shard, core.chunks(items, core.NPROC * 4))
    ck.rule = ("directories = every subset of <= %d names of a %d-name pool (a match and a near miss for every alternative of the shipped ignorepatt, dot-files, directories, extension ties) "
               "x ALL permutations of the OS enumeration order, plus %d curated 6-entry directories with link files x all 720 permutations; both UMNDirHandler and DirHandler; "
               "distinct = (kind, handler, verdict classes, size)" % (k, len(POOL), len(CURATED)))
    ck.bounds = {"subset_size": k, "pool": len(POOL), "curated": len(CURATED)}
    ck.assumptions = ["the reference visible set applies the configured ignorepatt (configuration, not code) to '<selector of the directory>/<name>' and, for the UMN handler, drops dot-files",
                      "entries are identified by their selector in the Gopher menu"]

"""Bounded-exhaustive request generation shared by C01 / C03 (E1 engine)."""
from __future__ import annotations

import itertools
import re
from urllib.parse import quote

from . import rig

# path segments: one per shortcut visible in the code
SEGMENTS = [
    b"a", b"f.txt", b"..", b".", b"", b"x", b"secret", b"z.zip", b"sub", b"g.txt", b"m.mbox", b"md",
    b"s.sh", b"p.pyg", b"t.html.tal", b"..\\", b"\0", b"?arg", b"|arg", b"|/MBOX-MESSAGE/1",
    b"|/MAILDIR-MESSAGE/1", b"URL:http://h/", b"1", b"gm", b"outside.txt",
    # characters that only LOOK like dots and slashes (compatibility forms a normaliser would fold)
    b"\xe2\x80\xa5", b"\xef\xbc\x8e\xef\xbc\x8e", b"\xe2\x80\xa4\xe2\x80\xa4",
]
CORE_SEGMENTS = [b"a", b"f.txt", b"..", b".", b"", b"x", b"secret", b"z.zip", b"sub", b"m.mbox", b"1", b"\0", b"|/MBOX-MESSAGE/1", b"md"]
SEPARATORS = [b"/", b"//", b"\\"]


def paths(max_all=2, max_slash=3, segs=None, core=None):
    """All paths of <= max_all segments joined by every separator, plus all
    paths of <= max_slash segments (core alphabet) joined by '/'."""
    segs = segs or SEGMENTS
    core = core or CORE_SEGMENTS
    seen = set()
    out = []

    def add(p):
        if p not in seen:
            seen.add(p)
            out.append(p)

    for n in range(1, max_all + 1):
        for combo in itertools.product(segs, repeat=n):
            for seps in itertools.product(SEPARATORS, repeat=n - 1):
                p = b"/" + combo[0]
                for s, c in zip(seps, combo[1:]):
                    p += s + c
                add(p)
                if n == 1:
                    add(combo[0])  # no leading slash
    for n in range(max_all + 1, max_slash + 1):
        for combo in itertools.product(core, repeat=n):
            add(b"/" + b"/".join(combo))
    return out


def enc_std(p: bytes) -> bytes:
    return quote(p, safe="/").encode()


def enc_all(p: bytes) -> bytes:
    return b"".join(b"%%%02x" % c for c in p)


def enc_double(p: bytes) -> bytes:
    return enc_all(p).replace(b"%", b"%25")


RAW_OK = re.compile(rb"^[^ \t\r\n]*$")

WRAPPERS = [
    "gopher", "gopherp+", "gopherp!", "gopherp$", "gophersearch", "sgopher", "sgopherp+",
    "http", "http_head", "https", "wap", "gemini", "spartan", "spartan_rel", "http_rel",
]
ENCODINGS = ["std", "all", "double", "raw"]


def wrap(wrapper: str, p: bytes, enc: str = "std"):
    """-> (request bytes, tls) or None when the combination cannot be expressed."""
    host = rig.SERVER_NAME.encode()
    if wrapper.startswith(("gopher", "sgopher")):
        if enc != "std":
            return None
        if b"\t" in p or b"\r" in p or b"\n" in p:
            return None
        tls = wrapper.startswith("s")
        w = wrapper.lstrip("s") if tls else wrapper
        if w == "gopher":
            return p + b"\r\n", tls
        if w == "gophersearch":
            return p + b"\tquery\r\n", tls
        return p + b"\t" + w[-1:].encode() + b"\r\n", tls
    if enc == "std":
        e = enc_std(p)
    elif enc == "all":
        e = enc_all(p)
    elif enc == "double":
        e = enc_double(p)
    else:
        if not RAW_OK.match(p) or b"?" in p or b"#" in p:
            return None
        e = p
    if wrapper in ("spartan_rel", "http_rel"):
        # the path exactly as given: a client is free to send one without a leading slash
        if enc not in ("std", "all") or p.startswith(b"/") and enc == "std" and False:
            return None
        e = enc_std(p[1:] if p.startswith(b"/") else p) if enc == "std" else enc_all(p[1:] if p.startswith(b"/") else p)
        if not e:
            return None
        if wrapper == "spartan_rel":
            return host + b" " + e + b" 0\r\n", False
        return b"GET " + e + b" HTTP/1.0\r\n\r\n", False
    if not e.startswith(b"/") and enc in ("std", "raw"):
        e = b"/" + e
    elif enc in ("all", "double"):
        e = b"/" + e if not p.startswith(b"/") else b"/" + (enc_all(p[1:]) if enc == "all" else enc_double(p[1:]))
    if wrapper in ("http", "https", "http_head"):
        m = b"HEAD" if wrapper == "http_head" else b"GET"
        return m + b" " + e + b" HTTP/1.0\r\n\r\n", wrapper == "https"
    if wrapper == "wap":
        return b"GET /wap" + e + b" HTTP/1.0\r\n\r\n", False
    if wrapper == "gemini":
        return b"gemini://" + host + e + b"\r\n", True
    if wrapper == "spartan":
        return host + b" " + e + b" 0\r\n", False
    raise ValueError(wrapper)


def decoded_selector(wrapper: str, p: bytes) -> bytes:
    """The selector the client means (all encoding layers removed) after the
    documented normalisation: leading slash added, one trailing slash dropped.
    Gopher-family request fields are blank-stripped."""
    s = p
    if wrapper in ("spartan_rel", "http_rel") and s.startswith(b"/"):
        s = s[1:]  # that wrapper sends the path without its first slash
    if wrapper.startswith(("gopher", "sgopher")):
        s = s.strip()
    if s.endswith(b"/"):
        s = s[:-1]
    if not s.startswith(b"/"):
        s = b"/" + s
    return s


CLIMB = [b"..", b"./", b"//", b".\\", b"\\\\", b"\0"]


def tries_to_climb(sel: bytes) -> bool:
    return any(t in sel for t in CLIMB)

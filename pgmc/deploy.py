"""Real deployment: the server started the way an administrator starts it.

`bin/pygopherd <configuration file>` runs as a separate process (real bind, real fork or
threads, real chroot / setuid when asked for -- the checks run as root), and is talked to
over real TCP and TLS sockets by clients that may read slowly, reset the connection in the
middle of a transfer, or say nothing at all.  What is explored with it is a small, fully
enumerated product: deployment modes x requests x client behaviours; the oracle is
differential (the same request answered by the plainest deployment) plus liveness and the
log the server writes.  The in-process harness cannot see anything that happens behind a
descriptor, after a real chroot, under dropped ids or across processes; this engine can.
"""
from __future__ import annotations

import os
import re
import signal
import socket
import ssl
import subprocess
import sys
import time

from . import rig

NOBODY_UID, NOBODY_GID = 65534, 65534


def free_port() -> int:
    s = socket.socket()
    s.bind(("127.0.0.1", 0))
    p = s.getsockname()[1]
    s.close()
    return p


_caps = {}


def can(what: str) -> bool:
    """Is a real chroot() / a real drop to nobody possible in this environment?  (Tried in a child process.)"""
    if what not in _caps:
        pid = os.fork()
        if pid == 0:
            try:
                if what == "chroot":
                    os.chroot("/")
                else:
                    os.setgroups(())
                    os.setregid(NOBODY_GID, NOBODY_GID)
                    os.setreuid(NOBODY_UID, NOBODY_UID)
                os._exit(0)
            except BaseException:  # noqa
                os._exit(1)
        _, st = os.waitpid(pid, 0)
        _caps[what] = os.WIFEXITED(st) and os.WEXITSTATUS(st) == 0
    return _caps[what]


def supported(mode) -> bool:
    return (not mode.get("chroot") or can("chroot")) and (not mode.get("drop") or can("drop"))


def open_up(path):
    """Make `path` and every directory above it (inside the scratch area) searchable by everybody:
    a server that has dropped to `nobody` must be able to reach its document root."""
    p = os.path.realpath(path)
    while p not in ("/", "/dev/shm", "/tmp", "/var/tmp"):
        try:
            st = os.stat(p)
            if st.st_uid == os.getuid():
                os.chmod(p, st.st_mode | 0o055)
        except OSError:
            pass
        p = os.path.dirname(p)


class Server:
    """One running deployment.  mode: dict(chroot, drop, servertype, tls, env, timeout, extra)"""

    def __init__(self, spec, mode, handlers="full", tag="dep"):
        self.mode = dict(mode)
        self.base = rig.fresh_dir(tag)
        self.site = os.path.join(self.base, "site")
        self.root = os.path.join(self.site, "docroot")
        os.makedirs(self.root)
        rig.build_tree(self.root, spec)
        for dp, dn, fn in os.walk(self.root):
            for n in dn:
                os.chmod(os.path.join(dp, n), 0o755)
            for n in fn:
                p = os.path.join(dp, n)
                if not os.path.islink(p):
                    os.chmod(p, os.stat(p).st_mode | 0o044)
        open_up(self.root)
        self.port = free_port()
        over = {"pygopherd__port": str(self.port), "pygopherd__interface": "127.0.0.1", "pygopherd__servername": rig.SERVER_NAME,
                "pygopherd__detach": "no", "pygopherd__pidfile": os.path.join(self.base, "pid"),
                "pygopherd__usechroot": "yes" if mode.get("chroot") else "no",
                "pygopherd__servertype": mode.get("servertype", "ForkingTCPServer"),
                "pygopherd__timeout": str(mode.get("timeout", 20)),
                "logger__logmethod": "file"}
        if mode.get("tls"):
            # the key as an administrator keeps it: readable by root only, outside the document root
            import shutil

            crt, key = os.path.join(self.base, "server.crt"), os.path.join(self.base, "server.key")
            shutil.copy(os.path.join(rig.REPO, "testdata", "demo.crt"), crt)
            shutil.copy(os.path.join(rig.REPO, "testdata", "demo.key"), key)
            os.chmod(key, 0o600)
            over.update({"pygopherd__enable_tls": "yes", "pygopherd__tls_certfile": crt, "pygopherd__tls_keyfile": key})
        over.update(mode.get("extra", {}))
        config = rig.make_config(self.root if not mode.get("relroot") else "docroot", handlers=handlers, cachetime=mode.get("cachetime", 0), **over)
        for opt in ("setuid", "setgid"):
            if config.has_option("pygopherd", opt):
                config.remove_option("pygopherd", opt)
        if mode.get("drop"):
            config.set("pygopherd", "setuid", "nobody")
            config.set("pygopherd", "setgid", "nogroup")
        self.conf = os.path.join(self.base, "pygopherd.conf")
        with open(self.conf, "w") as f:
            config.write(f)
        self.logpath = os.path.join(self.base, "server.log")
        env = dict(os.environ)
        env["PYTHONPATH"] = rig.REPO
        env["PYTHONDONTWRITEBYTECODE"] = "1"
        env.update(mode.get("env", {}))
        self.logf = open(self.logpath, "wb")
        self._env = env
        self._launch()
        self.started = self._wait_port()
        if not self.started and b"Address already in use" in self.log():
            # the port probed as free was taken in the meantime: once more on another one
            self._kill()
            self.port = free_port()
            config.set("pygopherd", "port", str(self.port))
            with open(self.conf, "w") as f:
                config.write(f)
            self._launch()
            self.started = self._wait_port()

    def _launch(self):
        self.proc = subprocess.Popen([sys.executable, os.path.join(rig.REPO, "bin", "pygopherd"), self.conf], cwd=self.site, env=self._env,
                                     stdout=self.logf, stderr=subprocess.STDOUT, start_new_session=True, preexec_fn=self.mode.get("preexec"))

    def _kill(self):
        try:
            os.killpg(self.proc.pid, signal.SIGKILL)
        except OSError:
            pass
        try:
            self.proc.wait(5)
        except Exception:  # noqa
            pass

    def _wait_port(self, limit=25.0):
        end = time.time() + limit
        while time.time() < end:
            if self.proc.poll() is not None:
                return False
            try:
                s = socket.create_connection(("127.0.0.1", self.port), timeout=0.5)
                s.close()
                self._settle()
                return True
            except OSError:
                time.sleep(0.05)
        return False

    def _settle(self, limit=6.0):
        """The socket is bound and listening well before start-up has finished (TLS, detach, chroot, drop).
        Wait for the end of start-up: the banner in the log, or the kernel showing the configured jail and ids."""
        end = time.time() + limit
        t0 = time.time()
        while time.time() < end and self.proc.poll() is None:
            if b"Running." in self.log():
                return
            jailed = (not self.mode.get("chroot")) or self.root_of_process() == os.path.realpath(self.root)
            dropped = (not self.mode.get("drop")) or self.ids()[0] == (NOBODY_UID,) * 3
            if jailed and dropped and time.time() - t0 > (0.6 if (self.mode.get("chroot") or self.mode.get("drop")) else 1.2):
                return
            time.sleep(0.05)

    def alive(self):
        return self.proc.poll() is None

    def log(self) -> bytes:
        self.logf.flush()
        with open(self.logpath, "rb") as f:
            return f.read()

    def ids(self):
        """(real, effective, saved) uid and gid of the master process, from /proc."""
        try:
            with open("/proc/%d/status" % self.proc.pid) as f:
                st = f.read()
            u = re.search(r"^Uid:\s+(\d+)\s+(\d+)\s+(\d+)", st, re.M)
            g = re.search(r"^Gid:\s+(\d+)\s+(\d+)\s+(\d+)", st, re.M)
            return tuple(map(int, u.groups())), tuple(map(int, g.groups()))
        except (OSError, AttributeError):
            return None, None

    def groups(self):
        try:
            with open("/proc/%d/status" % self.proc.pid) as f:
                m = re.search(r"^Groups:[ \t]*([^\n]*)$", f.read(), re.M)
            return tuple(int(x) for x in m.group(1).split())
        except (OSError, AttributeError):
            return None

    def cwd_of_process(self):
        try:
            return os.readlink("/proc/%d/cwd" % self.proc.pid)
        except OSError:
            return None

    def root_of_process(self):
        try:
            return os.readlink("/proc/%d/root" % self.proc.pid)
        except OSError:
            return None

    def children(self):
        out = set()
        try:
            for t in os.listdir("/proc/%d/task" % self.proc.pid):
                with open("/proc/%d/task/%s/children" % (self.proc.pid, t)) as f:
                    out.update(int(x) for x in f.read().split())
        except OSError:
            pass
        return out

    def fetch(self, data: bytes, tls=False, pause=0.0, rcvbuf=None, reset_after=None, limit=20.0, chunk_pause=0.0):
        """-> (bytes received, error text or None).  pause: seconds to wait before the first read (a slow
        reader); reset_after: read that many bytes, then reset the connection (SO_LINGER 0) -> (partial, "reset")."""
        s = socket.socket()
        if rcvbuf:
            s.setsockopt(socket.SOL_SOCKET, socket.SO_RCVBUF, rcvbuf)
        s.settimeout(limit)
        buf = b""
        try:
            s.connect(("127.0.0.1", self.port))
            if tls:
                c = ssl.SSLContext(ssl.PROTOCOL_TLS_CLIENT)
                c.check_hostname = False
                c.verify_mode = ssl.CERT_NONE
                s = c.wrap_socket(s)
            s.sendall(data)
            if pause:
                time.sleep(pause)
            while True:
                ch = s.recv(65536)
                if not ch:
                    return buf, None
                buf += ch
                if reset_after is not None and len(buf) >= reset_after:
                    import struct

                    raw = s
                    raw.setsockopt(socket.SOL_SOCKET, socket.SO_LINGER, struct.pack("ii", 1, 0))
                    raw.close()
                    return buf, "reset"
                if chunk_pause:
                    time.sleep(chunk_pause)
        except (OSError, ssl.SSLError) as e:
            return buf, "%s: %s" % (type(e).__name__, e)
        finally:
            try:
                s.close()
            except OSError:
                pass

    def stop(self):
        try:
            os.killpg(self.proc.pid, signal.SIGKILL)
        except OSError:
            pass
        try:
            self.proc.wait(5)
        except Exception:  # noqa
            pass
        try:
            self.logf.close()
        except OSError:
            pass
        rig.rmtree(self.base)


def normalise(out: bytes, port: int) -> bytes:
    """Responses of two deployments differ by the port number in menus and by dates."""
    out = re.sub(rb"Last-Modified: [^\r\n]*\r\n", b"", out)
    out = re.sub(rb" Mod-Date: [^\r\n]*\r\n", b"", out)
    return out.replace(b"\t%d\r\n" % port, b"\tPORT\r\n").replace(b"\t%d\t" % port, b"\tPORT\t").replace(b":%d/" % port, b":PORT/").replace(b":%d\"" % port, b":PORT\"").replace(b":%d " % port, b":PORT ")

"""File-system / process monitor: Python audit events + wrappers around os.stat
and os.lstat (there is no audit event for stat).

An audit hook cannot be removed, so it is installed once per process and
switched on and off with a flag."""
from __future__ import annotations

import os
import sys

_events = None  # list or None (disabled)
_installed = False
_orig_stat = os.stat
_orig_lstat = os.lstat

WATCH = {
    "open", "os.listdir", "os.scandir", "os.mkdir", "os.rename", "os.remove", "os.rmdir", "os.symlink", "os.link",
    "os.chmod", "os.chown", "os.truncate", "os.utime", "subprocess.Popen", "os.exec", "os.posix_spawn", "os.system",
    "os.chdir", "shutil.copyfile", "shutil.move", "shutil.rmtree", "os.mkfifo",
}


def _hook(event, args):
    ev = _events
    if ev is None or event not in WATCH:
        return
    try:
        if event == "subprocess.Popen":
            ev.append(("exec", args[0], tuple(args[1]) if args[1] else ()))
        elif event in ("os.exec", "os.posix_spawn", "os.system"):
            ev.append(("exec", args[0], ()))
        elif event == "os.rename" or event in ("os.symlink", "os.link", "shutil.copyfile", "shutil.move"):
            ev.append((event, args[0]))
            ev.append((event, args[1]))
        elif event == "open":
            if isinstance(args[0], int):
                return
            mode = args[1] if len(args) > 1 else None
            flags = args[2] if len(args) > 2 else 0
            w = bool(flags & (os.O_WRONLY | os.O_RDWR | os.O_CREAT)) if isinstance(flags, int) else False
            ev.append(("open-w" if w else "open", args[0]))
        else:
            ev.append((event, args[0] if args else None))
    except Exception:
        pass


def _stat(path, *a, **k):
    ev = _events
    if ev is not None and not isinstance(path, int):
        ev.append(("stat", path))
    return _orig_stat(path, *a, **k)


def _lstat(path, *a, **k):
    ev = _events
    if ev is not None and not isinstance(path, int):
        ev.append(("stat", path))
    return _orig_lstat(path, *a, **k)


def install():
    global _installed
    if not _installed:
        sys.addaudithook(_hook)
        os.stat = _stat
        os.lstat = _lstat
        _installed = True


def start():
    global _events
    install()
    _events = []


def stop():
    global _events
    ev = _events
    _events = None
    return ev or []


def reached(path, cwd) -> str:
    """The object the kernel actually reaches when asked for `path` from `cwd`:
    components are walked as the kernel does (.. only after its parent was
    found to be a directory); the walk stops at the first missing component."""
    if isinstance(path, bytes):
        path = os.fsdecode(path)
    if path is None:
        path = cwd
    if not path.startswith("/"):
        path = os.path.join(cwd, path)
    cur = "/"
    for comp in path.split("/"):
        if comp in ("", "."):
            continue
        if comp == "..":
            nxt = os.path.dirname(cur.rstrip("/")) or "/"
        else:
            nxt = os.path.join(cur, comp)
        try:
            if "\0" in nxt:
                return cur
            st = _orig_lstat(nxt)
        except OSError:
            # creation of a new entry: what is touched is the parent plus the name
            return nxt if comp != ".." else cur
        import stat as _st

        if _st.S_ISLNK(st.st_mode):
            nxt = os.path.realpath(nxt)
        cur = nxt
    return cur

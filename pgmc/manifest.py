"""Regenerates /verif/MANIFEST.json from the table below (developer tool)."""
import json
import os
import sys

VERIF = os.path.dirname(os.path.dirname(os.path.abspath(__file__)))

COMMON_NOTE = (
    "Explores the real pygopherd code imported from /repo's working tree through an in-process connection "
    "(fake socket, unbound server) and, for C02, C04 and C14, through real sockets on real threading and forking servers; trusted base: CPython, the harness seams in pgmc/rig.py, the reference "
    "models/validators in pgmc/ref.py and pgmc/parsers.py. Says nothing about inputs outside the stated alphabets/bounds."
)

CHECKS = {
    "C17": dict(
        technique="bounded-exhaustive enumeration of templates from a TAL/METAL grammar, executed by the real compiler+interpreter and compared with an independent reference evaluator; structural check of every compiled program; deviation-bounded DFS over the answers of the expression evaluator",
        text="One element with every consistent subset of the six TAL commands and every expression of per-command menus (thorough: full cross; quick: full cross on the interacting axes), parent x child pairs, nested repeats and METAL macros/slots are compiled and expanded by simpleTAL and compared, as parsed event streams, with a separately written TAL/TALES evaluator; "
             "every compiled program must have balanced scopes and every jump symbol must point at the end of the element that owns the command; the interpreter is run with every evaluation site answered from 10 values (None, default, strings, numbers, empty/non-empty sequences, iterables) within the deviation bound and must terminate with program counter, stacks and context restored and well-nested output.",
        design_ref="DESIGN.md 3/C17",
    ),
    "C18": dict(
        technique="bounded-exhaustive enumeration of context values x substitution positions (skeleton differential), python: expression positions with a side-effect canary, TAL-free documents from a grammar (equivalence and idempotence), context snapshots around every expansion",
        text="Every value of <=2 (quick) / <=3 (thorough) metacharacters is substituted through 12 templates covering text, attributes, repeat items, defines, string: expressions and macro slots: the output skeleton must equal the one for inert data and the value must come back as data; "
             "a python: expression with a side-effect canary is placed in 20 expression positions with Python paths off (never evaluated) and on (evaluated: the test bites); TAL-free documents from a grammar (void elements, boolean attributes, entities, comments, doctype, PI, script/style, upper case, unclosed p/li, three-deep nesting) must expand to equivalent documents and a second expansion must change nothing; "
             "the caller's locals, stacks, repeat map and globals are compared before and after expanding the C17 template families.",
        design_ref="DESIGN.md 3/C18",
    ),
    "C08": dict(
        technique="bounded-exhaustive enumeration of link files / .cap files (block shapes, ordered pairs and triples, all line permutations, extension-stripping modes) with a reference reading of the manual applied on top of the metadata-free listing, on the implementation",
        text="Link files of 1-3 blocks over 25 block shapes (overrides of ./name with each field, hide codes X and -, Host/Port +, one-line and continued abstracts, new entries with absolute, relative and URL: paths, positive, equal, zero and negative Numb, comments), in one file and split over two, "
             "each override also as a .cap file next to every other block, every permutation of the lines of each block, and the three extstrip modes are listed by the real UMN handler; the Gopher menu must equal the manual's reading (entries, fields, abstracts, order: numbered ascending, unnumbered by title, negatives) up to ties on number and title.",
        design_ref="DESIGN.md 3/C08",
    ),
    "C13": dict(
        technique="bounded-exhaustive enumeration of metacharacter payloads x echo positions, differential on the parsed element/attribute skeleton against an inert payload of the same shape, on the implementation",
        text="Every payload of <=3 (quick) / <=4 (thorough) characters over < > & \" ' CR LF a SP / = ; is placed in each of 16 positions where request or content text is echoed into generated markup (selector in the HTTP 404 page / WAP error card / URL redirect page, search string, file and directory names and titles, HTML <title>, mail Subject, abstracts, link-file Name/Path/Host, gophermap description/selector/host, text converted to WML, Gopher+ sidecars) "
             "and requested through HTTP, WAP and Gopher+; the page's start/end-tag and attribute-name skeleton, the HTTP header block and the sequence of Gopher+ block headers must equal those obtained with an inert payload of the same length and line structure.",
        design_ref="DESIGN.md 3/C13",
    ),
    "C16": dict(
        technique="bounded-exhaustive enumeration of archives (subsets of member kinds) with a two-world differential: the same tree extracted on disk vs zipped, every selector x protocol, on the implementation; audit-event monitor for the real-file-only handlers",
        text="Every subset of <=3 (quick) / <=4 (thorough) of 18 member kinds (nested, explicit and implicit directories, dot-files, UMN/gophermap metadata, sidecars, UTF-8 and CP437 names, relative/absolute/dangling/cyclic link members) is built as an extracted tree and as a ZIP; "
             "every member path, directory, link-through path and three missing names are requested through 5 protocol forms on both and must agree after removing the selector prefix and timestamps. Archives with mailbox-, Maildir-, script- and PYG-shaped members (with and without same-named real objects in the working directory) must be served as plain files/directories with no process launch, nothing touched or created outside the root; link members leaving the archive are absent.",
        design_ref="DESIGN.md 3/C16",
    ),
    "C15": dict(
        technique="bounded-exhaustive enumeration of (item kind x sidecar subset x sidecar content) with an independent Gopher+ block parser as oracle, on the implementation",
        text="For 11 item kinds (text, HTML, compressed, documents of 0, 1023 and 1024 bytes, directory, mailbox folder and message, ZIP member and directory) every subset of the four sidecar files, every sidecar content of <=3 lines over 9 line shapes (including lines that look like block headers, leading/trailing blanks, empty lines, non-ASCII, CRLF) "
             "and pairs of sidecars are served as ! on the item, $ on its parent and + ; the parsed block structure must have +INFO equal to the plain Gopher menu line, one +ADMIN, a +VIEWS naming the reference MIME type and size//1024, exactly one block per existing sidecar with exactly its lines, and a truthful + length.",
        design_ref="DESIGN.md 3/C15",
    ),
    "C19": dict(
        technique="exhaustive enumeration of configurations (options, spellings of the boolean, effective uid, detach, start directory) x single-fault injection at every privileged call of the recorded start-up trace, judged by a reference model of the required order",
        text="For all 8 combinations of usechroot/setuid/setgid, for init_security() alone and for the whole initialize() (real bind on port 0, TLS off and on), start-up is run with every privileged entry point substituted by a recorder, "
             "once without fault and once with each occurrence of each privileged call (and of the bind and the certificate load) raising. The trace must satisfy: bind and key load before any privilege is given up; chroot first, root rewritten to '/', working directory moved inside; "
             "setgroups(()) < setregid < setreuid; nothing unconfigured; a failing step propagates, nothing privileged follows it and no server is returned.",
        design_ref="DESIGN.md 3/C19",
    ),
    "C14": dict(
        technique="preemption-bounded stateless DFS over thread interleavings of real concurrent connection handlers under a cooperative (baton) scheduler with sys.settrace line-level scheduling points; exhaustive enumeration of completion orders x reaping points, and of stalled-client situations (silent / half a line / unfinished headers, with and without TLS and a timeout), on real forking/threading servers",
        text="All unordered pairs (thorough: also triples) of a 10-request menu chosen to collide run concurrently through the real connection handler, from a cold start (lazily initialised module tables reset) and warm, "
             "under every interleaving with <=2 (quick) / <=3 (thorough) preemptions; scheduling points at every cache-file stat/open/read/write-chunk/close, directory enumeration, and every traced line of the lazy initialisers, the block copy loop and the HTTP header cache. "
             "Each client must receive exactly its sequential answer. A real ForkingTCPServer and ThreadingTCPServer with three clients are driven through all 6 completion orders x service_actions() positions: answers, listener liveness and an empty child table are asserted.",
        design_ref="DESIGN.md 3/C14",
    ),
    "C09": dict(
        technique="bounded-exhaustive enumeration of gophermap files (all line sequences up to length 3 over 27 line shapes x terminators x placements) rendered by the implementation, against a reference reading of the manual and a cross-protocol differential",
        text="Every gophermap of <=3 lines over 27 line shapes (info text, blank, 1-4 fields, empty selector or trailing empty fields, absolute/relative/URL: selectors, remote hosts, this host on another port, explicit info type, search, characters that str.splitlines() treats as line ends) with LF/CRLF/unterminated endings, placed in the root, at depth 1 and 2 and as a *.gophermap file, "
             "is listed through plain Gopher and compared entry by entry with the documented reading; all sequences of <=2 lines are also listed through 9 protocol forms and compared with the Gopher view.",
        design_ref="DESIGN.md 3/C09",
    ),
    "C05": dict(
        technique="explicit-state breadth-first crawl of the implementation: states = (protocol, advertised link), transitions = local links parsed out of each real listing by independent parsers, over a bounded-exhaustive names x kinds content tree",
        text="A tree holding every name of a 30-name alphabet (spaces, reserved URL characters, quotes, markup characters, non-UTF-8 bytes, leading blank; TAB/LF/trailing blank for URL-based protocols) as every kind of object, plus all directory x child pairs, "
             "is crawled from the root menu through 8 protocol forms under both handler lists, following every local link exactly as advertised; each must be answered with success and with a menu iff advertised as one; trees with a real directory at the path of the WAP prefix (default and two configured prefixes) are crawled through WAP and must reach exactly what the Gopher crawl of the same tree reaches.",
        design_ref="DESIGN.md 3/C05",
    ),
    "C06": dict(
        technique="bounded-exhaustive enumeration of directories x protocol views x abstract settings with a cross-protocol differential on independently parsed listings; bounded-exhaustive enumeration of search strings through every protocol's submission mechanism",
        text="Every directory of the names tree (plus link files, .cap, abstracts and a gophermap with remote/URL/search entries) is listed through 9 protocol forms under handler lists x abstract_entries x abstract_headers and the parsed (is-info, name, target) sequences must all agree; "
             "selectors answer the same with and without a trailing slash; every selector has one MIME type across protocols; every search string of <=3 characters over a 14-character alphabet reaches a PYG handler and a script's environment unchanged through 8 mechanisms.",
        design_ref="DESIGN.md 3/C06",
    ),
    "C07": dict(
        technique="bounded-exhaustive enumeration of directory contents x exhaustive enumeration of all permutations of the OS directory enumeration order (seam at VFS listdir), against a reference visible-set",
        text="Every subset of <=3 (quick) / <=4 (thorough) names of a pool that sits on both sides of every alternative of the shipped ignore pattern (plus dot-files, directories, extension ties) is listed by both directory handlers under ALL permutations of the enumeration order; "
             "curated 6-entry directories with conflicting link files under all 720 permutations. The listing must contain exactly the reference visible set, once each, be byte-identical under every permutation (name-sorted for DirHandler), and every entry kept out of it must be retrievable by exact selector with its exact bytes.",
        design_ref="DESIGN.md 3/C07",
    ),
    "C04": dict(
        technique="bounded-exhaustive enumeration of documents (content class x size x name) x protocols x handler lists, plus deviation-bounded DFS over short-read patterns of the VFS file object, plus an exhaustive TLS-versus-plaintext differential over real sockets (object kind x protocol pair x server type), on the implementation",
        text="Every document of the cross product content classes x sizes around each multiple of the 4096-byte copy block x names (spaces, reserved URL characters, non-UTF-8, encodings, unknown and upper-case extensions, names of 247-255 bytes) is fetched through 10 protocol forms under both handler lists, a second pair of MIME tables and a document root that is a symbolic link; "
             "the body must equal the file (gunzip/bunzip2 of it where decompression is configured), WAP's WML must invert line by line to the source, a Gopher+ length must equal the bytes that follow, HEAD must equal GET's headers with no body, "
             "and the advertised MIME type must equal an independent reading of conf/mime.types and the encoding map. All patterns of short reads (n / n-1 / 1 bytes per read) within the deviation bound are explored for three file sizes x five protocols.",
        design_ref="DESIGN.md 3/C04",
    ),
    "C10": dict(
        technique="explicit-state breadth-first search over operation histories (listings through 4 protocols, directory mutations, virtual-clock advances) on the implementation, checked step by step against an explicit cache model with a caching-off twin server as reference; a fully enumerated set of real-time situations on a real deployment",
        text="All histories over the operation menu up to the depth bound (states de-duplicated on directory contents, unpickled cache entries, capped cache age and model snapshot) are replayed on a fresh world under a virtual clock; "
             "every listing must equal what the cache model predicts: the twin's fresh listing on a miss (no cache, or age >= lifetime), the listing recorded when the entry was written on a hit, whichever protocols wrote and read it; "
             "a hit must not touch the cache file, a miss must rewrite it; lifetime 0 always reflects the current directory; at the end of every history a listing is attempted while os.listdir of the directory fails, which must not be answered from an expired entry.",
        design_ref="DESIGN.md 3/C10",
    ),
    "C12": dict(
        technique="exhaustive fault enumeration (fault kind x position x singles and pairs x protocols x directory handlers; occurrence-indexed stat failures at the os seam; special files in every metadata position) on the implementation, differential against the fault-free listing",
        text="Every single and every pair of unservable entries (real dangling and self-referential links, FIFOs, UNIX sockets, names containing '..', directories whose children the filter rejects, directories that may be read but not searched; special files called gophermap; seam-injected vanished entries and EACCES) "
             "at every sort position of a 4-entry directory, listed through 7 protocols by both directory handlers and inside ZIP archives; the listing must succeed and, with the faulty names removed, equal the fault-free listing.",
        design_ref="DESIGN.md 3/C12",
    ),
    "C20": dict(
        technique="exhaustive fault enumeration over (response kind x write index x error class) on the real connection handler with a failing socket; exhaustive enumeration of (deployment x transfer) with a real client that resets the connection midway",
        text="For 34 response kinds the clean run's write count W is measured, then for every k in 1..W+1 and each of EPIPE, ECONNRESET and a single-argument timeout the k-th and all later socket writes raise; "
             "nothing may leave handle(), the log must name the client address and the failure's own class and no other exception class, and /proc/self/fd must be unchanged afterwards.",
        design_ref="DESIGN.md 3/C20",
    ),
    "C11": dict(
        technique="exhaustive crash-point enumeration (every prefix of every cache file written by the implementation; every file-size limit k for the writing process; every cut with a read-only directory) + preemption-bounded stateless DFS over writer||reader thread interleavings under a cooperative scheduler",
        text="The real server writes its directory cache; the file is then replaced by each of its prefixes 0..size (and zero/0xff-filled files) and the directory requested again through the real connection handler, "
             "which must return the complete fresh listing. Same for the three files of the ZIP index cache. Concurrent writer/reader requests on one directory run under a baton scheduler with scheduling points at every "
             "cache-file stat/open/read/write-chunk/close and directory enumeration; all interleavings with <=2 (quick) / <=3 (thorough) preemptions are executed, each client must get the complete listing and the file left behind must serve the next request correctly.",
        design_ref="DESIGN.md 3/C11",
    ),
    "C01": dict(
        technique="bounded-exhaustive enumeration of request lines x handler lists x working directories, two-world non-interference differential + audit-event monitor on the implementation; exhaustive enumeration of start-up modes (detach x relative root x launch directory) through the real initialize()",
        text="Every request of the bounded alphabet (13 protocol wrappers x 4 percent-encoding layers x paths of <=3 segments over traversal tokens, ZIP/virtual suffixes, NUL, backslashes) is served by the real server "
             "under the shipped and the full handler list and three working directories, twice, with two different states of everything outside the root (including siblings whose names start like the root); "
             "responses must be byte-identical, no open/listdir/exec may reach an object outside the root, planted canary bytes must never appear, and climbing selectors must be answered not-found.",
        design_ref="DESIGN.md 3/C01",
    ),
    "C02": dict(
        technique="bounded-exhaustive enumeration of first lines x TLS x header blocks x protocol orders through the real multiplexer, against a reference classifier; exhaustive 256-byte sniff on a live socketpair",
        text="Every first line of the bounded field alphabet (1-4 fields, four separators, three terminators, near misses of every documented shape), on TLS and plaintext connections, "
             "with every header block of the menu for HTTP-shaped lines, is classified by the real ProtocolMultiplexer under 19 protocol orders and in isolation per protocol; "
             "totality, TLS strictness, agreement with the reference classifier, first-acceptor-wins and determinism are checked on each. All 256 first bytes x {context, none} go through the real wrap_socket on a socketpair.",
        design_ref="DESIGN.md 3/C02",
    ),
    "C03": dict(
        technique="bounded-exhaustive enumeration of request lines (E1) + explicit-state BFS over request histories (E4) on the implementation; exhaustive deployment-mode x request differential against real server processes",
        text="Every request line of the bounded alphabet (wrappers x encodings x <=3-segment paths, edge selectors, raw first lines, both TLS states, both handler lists) "
             "is served by the real connection handler and its bytes validated by an independent per-protocol validator; every history of read-only requests up to the depth bound "
             "is replayed on a fresh world and the last answer compared with the answer given alone.",
        design_ref="DESIGN.md 3/C03",
    ),
}

NOT_YET = {}


def main():
    props = [json.loads(l) for l in open(os.path.join(VERIF, "properties.jsonl"))]
    checks = []
    na = []
    for p in props:
        pid = p["id"]
        c = CHECKS.get(pid)
        if c is None:
            na.append({"property_id": pid, "reason": NOT_YET.get(pid, "check not built yet in this round (planned in DESIGN.md section 3); not claimed until it exists and is silent on the unchanged tree")})
            continue
        checks.append({
            "property_id": pid,
            "quick_cmd": "./check %s --tier quick" % pid,
            "thorough_cmd": "./check %s --tier thorough" % pid,
            "evidence_file": "/verif/evidence/%s.json" % pid,
            "replay_cmd_template": "./check %s --replay {path}" % pid,
            "engine": "pgmc",
            "level_claimed": {"category": "model_checking", "text": c["text"], "design_ref": c["design_ref"]},
            "level_note": c.get("note", COMMON_NOTE),
            "technique": c["technique"],
        })
    man = {
        "version": 1,
        "setup_cmd": "/venv/bin/python -B -c \"import sys; sys.path.insert(0,'/verif'); import pgmc.rig\"",
        "hooks": {
            "guard": "PYGOPHERD_VERIF",
            "enable": "no source hooks: all seams are harness-side monkeypatches installed by the check process; the guard variable is unused by /repo",
            "baseline_off_cmd": "cd /repo && /venv/bin/python -m pytest -ra -q -p no:cacheprovider --timeout=900 --continue-on-collection-errors",
            "source_commits": [],
            "add_only": True,
        },
        "engines": [{
            "name": "pgmc",
            "path": "/verif/pgmc",
            "serves_properties": sorted(CHECKS),
            "kind_free_text": "hand-written explicit-state / stateless explorers (bounded-exhaustive enumeration, deviation-bounded DFS over environment answers, preemption-bounded cooperative scheduler, BFS over histories) driving the real implementation in process, plus exhaustively enumerated deployment modes x requests x client behaviours against real bin/pygopherd processes (pgmc/deploy.py)",
        }],
        "checks": checks,
        "not_applicable": na,
        "notes": "See DESIGN.md. Fixed defects and known findings: known_findings.json.",
    }
    with open(os.path.join(VERIF, "MANIFEST.json"), "w") as f:
        json.dump(man, f, indent=1)
        f.write("\n")
    print("checks:", [c["property_id"] for c in checks])


if __name__ == "__main__":
    main()

"""Independent response validators and listing parsers, one per protocol.

Written from the protocol documents (RFC 1436, doc/standards/Gopher+.txt,
HTTP/1.0, the Gemini and Spartan specifications), not from the renderers.
"""
from __future__ import annotations

import html.parser
import re
from urllib.parse import unquote_to_bytes

from . import rig

# ---------------------------------------------------------------------------
# well-formedness validators: return None when valid, else a reason string
# ---------------------------------------------------------------------------

GOPHER_LINE = re.compile(rb"^([^\t\r\n])([^\t\r\n]*)\t([^\t\r\n]*)\t([^\t\r\n]*)\t(-?\d+)(\t\+)?\r\n$", re.S)


def split_crlf_lines(data: bytes):
    """Lines including their terminator; a trailing unterminated piece is kept."""
    return re.findall(rb"[^\n]*\n|[^\n]+$", data)


def gopher_menu_lines(body: bytes):
    """Parse `body` as a Gopher menu; returns list of tuples or raises ValueError."""
    out = []
    for ln in split_crlf_lines(body):
        if ln == b".\r\n":
            continue
        m = GOPHER_LINE.match(ln)
        if not m:
            raise ValueError("not a menu line: %r" % ln[:120])
        out.append((m.group(1), m.group(2), m.group(3), m.group(4), int(m.group(5)), bool(m.group(6))))
    return out


def is_gopher_error(body: bytes) -> bool:
    return bool(re.match(rb"^3[^\t\r\n]*\t[^\t\r\n]*\terror\.host\t1\r\n$", body, re.S))


def validate_gopher(out: bytes, expect_menu=None):
    """Plain Gopher: a menu, a single error line, or a raw document.  A raw
    document can be any bytes, so the structural checks are: a response that
    begins like the server's error line must be exactly that one line, and if a
    menu is expected every line must parse."""
    if out.startswith(b"3") and b"\terror.host\t1\r\n" in out:
        if not is_gopher_error(out):
            return "error line mixed with other output: %r" % out[:160]
        return None
    if expect_menu:
        try:
            gopher_menu_lines(out)
        except ValueError as e:
            return str(e)
    return None


GP_STATUS = re.compile(rb"^([+-])(-1|-2|\d+)\r\n", re.S)


def validate_gopherp(out: bytes):
    """Gopher+: first line `+N`, `+-1`, `+-2` (success) or `--1`/`--2`/`-N`
    (error, followed by `<code> <admin>CRLF<text>CRLF`)."""
    m = GP_STATUS.match(out)
    if not m:
        return "no Gopher+ status line: %r" % out[:80]
    rest = out[m.end():]
    if m.group(1) == b"+":
        if m.group(2) not in (b"-1", b"-2"):
            n = int(m.group(2))
            if len(rest) != n:
                return "Gopher+ length header %d but %d bytes follow" % (n, len(rest))
        if GP_STATUS.match(rest) and rest.startswith(b"--"):
            return "second status line after a success status"
        return None
    # error
    if not re.match(rb"^[1-3] [^\r\n]*\r\n[^\r\n]*\r\n$", rest, re.S):
        return "malformed Gopher+ error body: %r" % rest[:160]
    return None


HTTP_STATUS = re.compile(rb"^HTTP/1\.0 (\d\d\d) [^\r\n]*\r\n", re.S)
HTTP_HEADER = re.compile(rb"^[A-Za-z][A-Za-z0-9-]*: [^\r\n]*$")


def split_http(out: bytes):
    """-> (status:int, headers:[(name,value)], body) or raises ValueError."""
    m = HTTP_STATUS.match(out)
    if not m:
        raise ValueError("no HTTP/1.0 status line: %r" % out[:80])
    end = out.find(b"\r\n\r\n")
    if end < 0:
        raise ValueError("no end of HTTP header block")
    head = out[m.end():end]
    headers = []
    if head:
        for ln in head.split(b"\r\n"):
            if not HTTP_HEADER.match(ln):
                raise ValueError("malformed HTTP header line %r" % ln[:120])
            n, v = ln.split(b": ", 1)
            headers.append((n, v))
    return int(m.group(1)), headers, out[end + 4:]


def validate_http(out: bytes, head=False):
    try:
        status, headers, body = split_http(out)
    except ValueError as e:
        return str(e)
    names = [n.lower() for n, v in headers]
    if b"content-type" not in names:
        return "no Content-Type header"
    if len(set(names)) != len(names):
        return "duplicate header"
    if re.search(rb"(^|\n)HTTP/1\.0 \d\d\d ", body):
        return "second HTTP status line inside the body"
    if head and body and status == 200 and not out.startswith(b"HTTP/1.0 200 Not Found\r\n"):
        # (WAP spells its error card "200 Not Found" so that phones display it; error answers carry their text
        # for HEAD as well, under HTTP and under WAP alike)
        return "successful HEAD response carries a body"
    # a declared length is a promise: a client stops reading there
    for n, v in headers:
        if n.lower() == b"content-length":
            if not re.fullmatch(rb"\s*\d+\s*", v):
                return "Content-Length %r is not a number" % v
            if not head and int(v) != len(body):
                return "Content-Length says %d, the body has %d bytes" % (int(v), len(body))
    return None


def validate_gemini(out: bytes):
    m = re.match(rb"^(\d\d) ([^\r\n]*)\r\n", out, re.S)
    if not m:
        return "no Gemini status line: %r" % out[:80]
    if m.group(1)[:1] != b"2" and out[m.end():]:
        return "Gemini status %s followed by a body / split header: %r" % (m.group(1).decode(), out[:200])
    if len(m.group(2)) > 1024:
        pass  # META length is a SHOULD for the server here
    return None


def validate_spartan(out: bytes):
    m = re.match(rb"^([2345]) ([^\r\n]*)\r\n", out, re.S)
    if not m:
        return "no Spartan status line: %r" % out[:80]
    if m.group(1) != b"2" and out[m.end():]:
        return "Spartan status %s followed by a body / split header: %r" % (m.group(1).decode(), out[:200])
    return None


def validate(family: str, out: bytes, head=False, expect_menu=None):
    """family in gopher/gopherp/http/wap/gemini/spartan."""
    if family == "gopher":
        return validate_gopher(out, expect_menu)
    if family == "gopherp":
        return validate_gopherp(out)
    if family in ("http", "wap"):
        return validate_http(out, head)
    if family == "gemini":
        return validate_gemini(out)
    if family == "spartan":
        return validate_spartan(out)
    raise ValueError(family)


# ---------------------------------------------------------------------------
# response classification: success-menu / success-document / not-found
# ---------------------------------------------------------------------------


def classify(family: str, out: bytes):
    """-> ("notfound"|"menu"|"doc"|"input"|"redirect"|"invalid", mimetype|None, body)"""
    if family == "gopher":
        if is_gopher_error(out):
            return "notfound", None, out
        return "ok", None, out
    if family == "gopherp":
        m = GP_STATUS.match(out)
        if not m:
            return "invalid", None, out
        if m.group(1) == b"-":
            return "notfound", None, out[m.end():]
        return "ok", None, out[m.end():]
    if family in ("http", "wap"):
        try:
            status, headers, body = split_http(out)
        except ValueError:
            return "invalid", None, out
        ct = dict((n.lower(), v) for n, v in headers).get(b"content-type", b"").decode("latin-1")
        if status == 404 or (family == "wap" and b"200 Not Found" in out[:40]):
            return "notfound", ct, body
        if status != 200:
            return "invalid", ct, body
        # a generated listing: a table plus the generator's footer link / the index card (layout, not styling)
        if ct == "text/html" and re.search(rb"(?i)<table\b", body) and re.search(rb'(?i)generated by\s*<a\s+href="https://www\.github\.com/michael-lazar/pygopherd"', body):
            return "menu", ct, body
        if ct == "text/vnd.wap.wml" and re.search(rb'(?i)<card\b[^>]*\bid="index"', body) and b'title="Text File"' not in body:
            return "menu", ct, body
        return "doc", ct, body
    if family in ("gemini", "spartan"):
        m = re.match(rb"^(\d+) ([^\r\n]*)\r\n", out, re.S)
        if not m:
            return "invalid", None, out
        code = m.group(1)
        meta = m.group(2).decode("latin-1")
        body = out[m.end():]
        if code[:1] == b"2":
            return ("menu" if meta == "text/gemini" else "doc"), meta, body
        if code[:1] == b"1":
            return "input", meta, body
        if code[:1] == b"3" and family == "gemini":
            return "redirect", meta, body
        return "notfound", meta, body
    raise ValueError(family)


# ---------------------------------------------------------------------------
# listing parsers: -> list of entries
#   {"info": bool, "name": bytes, "target": tuple, "type": gopher type or None, "kind": "menu"|"doc"|"search"|None}
#   target: ("local", selector-bytes) | ("remote", host, port, gtype, selector) | ("url", url-bytes) | ("none",)
# ---------------------------------------------------------------------------


def _gopher_target(gtype: bytes, sel: bytes, host: bytes, port: int):
    m = re.match(rb"^/?URL:(.*)$", sel, re.S)
    if m:
        return ("url", m.group(1))  # (nothing after the colon: a link to the empty URL)
    if host == rig.SERVER_NAME.encode() and port == rig.SERVER_PORT:
        return ("local", sel)
    return ("remote", host, port, gtype, sel)


def _kind_of_type(t: bytes):
    if t == b"1":
        return "menu"
    if t == b"7":
        return "search"
    if t == b"i":
        return None
    return "doc"


def parse_gopher_menu(body: bytes):
    out = []
    for t, name, sel, host, port, plus in gopher_menu_lines(body):
        if t == b"i":
            out.append({"info": True, "name": name, "target": ("none",), "type": t, "kind": None})
        else:
            out.append({"info": False, "name": name, "target": _gopher_target(t, sel, host, port), "type": t,
                        "kind": _kind_of_type(t), "plus": plus, "raw": sel})
    return out


def parse_gopherp_blocks(body: bytes):
    """Split a Gopher+ attribute listing into items, each a list of
    (blockname, inline-value, [content lines])."""
    items = []
    cur = None
    for ln in body.split(b"\r\n"):
        if ln == b"":
            continue
        if ln.startswith(b"+"):
            m = re.match(rb"^\+([^:]*):(.*)$", ln, re.S)
            if not m:
                raise ValueError("bad block header %r" % ln[:80])
            name = m.group(1)
            if name == b"INFO":
                cur = []
                items.append(cur)
            if cur is None:
                raise ValueError("block before +INFO: %r" % ln[:80])
            cur.append((name, m.group(2), []))
        elif ln.startswith(b" "):
            if cur is None or not cur:
                raise ValueError("content line before any block: %r" % ln[:80])
            cur[-1][2].append(ln[1:])
        else:
            raise ValueError("line is neither block header nor content: %r" % ln[:80])
    return items


def parse_gopherp_dir(body: bytes):
    """$-listing -> entries (from each item's +INFO line)."""
    out = []
    for item in parse_gopherp_blocks(body):
        name, val, _ = item[0]
        line = val[1:] if val.startswith(b" ") else val
        (t, nm, sel, host, port, plus), = gopher_menu_lines(line + b"\r\n")
        if t == b"i":
            out.append({"info": True, "name": nm, "target": ("none",), "type": t, "kind": None, "blocks": item})
        else:
            out.append({"info": False, "name": nm, "target": _gopher_target(t, sel, host, port), "type": t,
                        "kind": _kind_of_type(t), "plus": plus, "blocks": item, "raw": sel})
    return out


WAP_PREFIX = b"/wap"  # a check that configures another prefix sets this for the duration of its case


def _url_target(url: bytes, wap=False):
    m = re.match(rb"^gopher://([^:/]+):(\d+)/(.)(.*)$", url, re.S)
    if m:
        return ("remote", m.group(1), int(m.group(2)), unquote_to_bytes(m.group(3)), unquote_to_bytes(m.group(4)))
    if re.match(rb"^[A-Za-z][A-Za-z0-9+.-]*:", url) or url == b"":
        return ("url", url)
    if wap:
        if not url.startswith(WAP_PREFIX):
            return ("badwap", url)
        url = url[len(WAP_PREFIX):]
    return ("local", unquote_to_bytes(url))


class _Skeleton(html.parser.HTMLParser):
    def __init__(self):
        super().__init__(convert_charrefs=True)
        self.events = []

    def handle_starttag(self, tag, attrs):
        self.events.append(("start", tag, attrs))

    def handle_startendtag(self, tag, attrs):
        self.events.append(("start", tag, attrs))
        self.events.append(("end", tag))

    def handle_endtag(self, tag):
        self.events.append(("end", tag))

    def handle_data(self, data):
        self.events.append(("data", data))

    def handle_comment(self, data):
        self.events.append(("comment", data))

    def handle_decl(self, decl):
        self.events.append(("decl", decl))

    def handle_pi(self, data):
        self.events.append(("pi", data))


def html_events(text: str):
    p = _Skeleton()
    p.feed(text)
    p.close()
    return p.events


def skeleton(text: str):
    """Sequence of start/end tags with attribute *names* — the page structure."""
    sk = []
    for ev in html_events(text):
        if ev[0] == "start":
            sk.append(("S", ev[1], tuple(sorted(a for a, _ in ev[2]))))
        elif ev[0] == "end":
            sk.append(("E", ev[1]))
        elif ev[0] in ("comment", "decl", "pi"):
            sk.append((ev[0],))
    return sk


def _dec(b: bytes) -> str:
    return b.decode("utf-8", "surrogateescape")


def _enc(s: str) -> bytes:
    return s.encode("utf-8", "surrogateescape")


def parse_http_listing(body: bytes):
    """The HTML directory page -> entries (one per table row).  Only the table layout is
    relied on -- icon cell, name cell (the link text, or the cell's text outside the search
    form for rows without a link), subtype cell -- not the inline styling elements."""
    evs = html_events(_dec(body))
    out = []
    cur = None
    in_table = False
    td = 0
    in_a = False
    in_form = False
    for ev in evs:
        if ev[0] == "start" and ev[1] == "table":
            in_table = True
        elif ev[0] == "end" and ev[1] == "table":
            in_table = False
        if not in_table:
            continue
        if ev[0] == "start" and ev[1] == "tr":
            cur = {"info": True, "name": b"", "target": ("none",), "type": None, "kind": None, "subtype": "", "icon": None, "_cell": b""}
            td = 0
            in_a = in_form = False
        elif ev[0] == "end" and ev[1] == "tr" and cur is not None:
            sub = cur["subtype"].strip()
            cur["subtype"] = sub
            if "raw" not in cur or cur.get("search"):
                # no link: the name is the text of the name cell (one decorative no-break space before it)
                cell = cur["_cell"]
                if cell.startswith(b"\xc2\xa0"):
                    cell = cell[2:]
                cur["name"] = cell
            del cur["_cell"]
            if cur.get("search"):
                cur["kind"] = "search"
                cur["info"] = False
            elif not cur["info"]:
                cur["kind"] = "menu" if sub in ("gopher-menu", "gopher+-menu") else "doc"
            out.append(cur)
            cur = None
        elif cur is None:
            continue
        elif ev[0] == "start" and ev[1] == "td":
            td += 1
        elif ev[0] == "start" and ev[1] == "img":
            cur["icon"] = dict(ev[2]).get("src")
        elif ev[0] == "start" and ev[1] == "a":
            href = dict(ev[2]).get("href") or ""
            cur["target"] = _url_target(_enc(href))
            cur["raw"] = _enc(href)
            cur["info"] = False
            in_a = True
        elif ev[0] == "end" and ev[1] == "a":
            in_a = False
        elif ev[0] == "start" and ev[1] == "form":
            href = dict(ev[2]).get("action") or ""
            cur["target"] = _url_target(_enc(href))
            cur["raw"] = _enc(href)
            cur["search"] = True
            in_form = True
        elif ev[0] == "end" and ev[1] == "form":
            in_form = False
        elif ev[0] == "data":
            if in_a:
                cur["name"] += _enc(ev[1])
            elif td == 2 and not in_form:
                cur["_cell"] += _enc(ev[1])
            elif td >= 3:
                cur["subtype"] += ev[1]
    return out


def parse_wap_listing(body: bytes):
    """WML directory card -> entries.  Lines are `[k ]<a ...>name</a><br/>` for
    links and `name<br/>` for informational text."""
    text = _dec(body)
    # layout, not styling: soft-key elements and a separate title paragraph may precede the paragraph of entries;
    # the title may also be the first line of that paragraph
    m = re.search(r"<card\b[^>]*>\s*(?:<do\b[^>]*>.*?</do>\s*)*(?:<p\b[^>]*>\s*(?:<big>\s*)?<b>.*?</b>(?:\s*</big>)?\s*</p>\s*)?<p>\n(?:<b>.*?</b>\s*<br\s*/>\n?)?(.*)</p>\s*</card>\s*</wml>\s*$", text, re.S | re.I)
    if not m:
        raise ValueError("no WML directory card")
    inner = m.group(1)
    out = []
    evs = html_events(inner)
    cur = {"info": True, "name": b"", "target": ("none",), "type": None, "kind": None}
    in_a = False
    in_anchor = False
    for ev in evs:
        if ev[0] == "start" and ev[1] == "a":
            href = dict(ev[2]).get("href") or ""
            cur["target"] = _url_target(_enc(href), wap=True)
            cur["raw"] = _enc(href)
            cur["info"] = False
            # the access-key digit and blank before <a> are decoration
            cur["name"] = b""
            in_a = True
        elif ev[0] == "end" and ev[1] == "a":
            in_a = False
        elif ev[0] == "start" and ev[1] == "anchor":
            in_anchor = True
        elif ev[0] == "end" and ev[1] == "anchor":
            in_anchor = False
        elif ev[0] == "start" and ev[1] == "input":
            # a search entry: `name<br/>` was already closed by its first <br/>; reopen it
            if out and out[-1]["info"]:
                cur = out.pop()
                cur["info"] = False
                cur["kind"] = "search"
                cur["_second"] = True
        elif ev[0] == "start" and ev[1] == "go":
            href = dict(ev[2]).get("href") or ""
            cur["target"] = _url_target(_enc(href), wap=True)
            cur["raw"] = _enc(href)
            cur["kind"] = "search"
            cur["info"] = False
        elif ev[0] == "start" and ev[1] == "br":
            cur.pop("_second", None)
            out.append(cur)
            cur = {"info": True, "name": b"", "target": ("none",), "type": None, "kind": None}
        elif ev[0] == "data":
            if in_anchor or cur.get("_second"):
                continue
            if in_a or cur["info"]:
                cur["name"] += _enc(ev[1])
    # strip the newline that follows each <br/>
    for e in out:
        e["name"] = e["name"].lstrip(b"\n")
    return out


def parse_gemtext_listing(body: bytes, spartan=False, footer=True):
    """text/gemini directory -> entries.  The configured footer (blank line +
    one link line) is removed first."""
    lines = body.split(b"\n")
    if lines and lines[-1] == b"":
        lines.pop()
    if footer:
        if len(lines) < 2 or lines[-2] != b"" or not lines[-1].startswith(b"=> https://www.github.com/michael-lazar/pygopherd"):
            raise ValueError("directory footer missing: %r" % lines[-2:])
        lines = lines[:-2]
    out = []
    for ln in lines:
        m = re.match(rb"^=([>:]) (\S*) ?(.*)$", ln, re.S)
        if m:
            kind = None
            url = m.group(2)
            if m.group(1) == b":":
                kind = "search"
            tgt = _url_target(url)
            if not spartan and tgt[0] == "local" and tgt[1].startswith(b"/GEMINI-QUERY"):
                tgt = ("local", tgt[1][len(b"/GEMINI-QUERY"):])
                kind = "search"
            out.append({"info": False, "name": m.group(3), "target": tgt, "type": None, "kind": kind, "raw": url})
        else:
            out.append({"info": True, "name": ln, "target": ("none",), "type": None, "kind": None})
    return out


def undo_backslashreplace(name: bytes) -> bytes:
    r"""Gemini/Spartan show undecodable bytes as \xNN; map them back."""
    return re.sub(rb"\\x([0-9a-f]{2})", lambda m: bytes([int(m.group(1), 16)]), name)

"""E2 — stateless deviation-bounded DFS over environment answers.

run(chooser) executes the real code once; wherever the environment has more than
one possible answer the seam calls chooser.choose(n, label): answer 0 is the
default (what a well-behaved environment does), answers 1..n-1 are deviations.
A recorded prefix is replayed first, afterwards the default is taken; every
later choice point is branched on while the deviation budget lasts."""
from __future__ import annotations

from .core import HarnessError


class Chooser:
    def __init__(self, prefix):
        self.prefix = list(prefix)
        self.choices = []
        self.points = []  # (n options, label)

    def choose(self, n, label=None):
        if n <= 1:
            return 0
        k = len(self.choices)
        if k < len(self.prefix):
            c = self.prefix[k]
            if c >= n:
                raise HarnessError("environment prefix cannot be replayed: choice %d of %d at %r" % (c, n, label))
        else:
            c = 0
        self.choices.append(c)
        self.points.append((n, label))
        return c

    def deviations_before(self, i):
        return sum(1 for c in self.choices[:i] if c != 0)

    def deviations(self):
        return sum(1 for c in self.choices if c != 0)


def explore(run, bound, on_execution, cap=None):
    """run(chooser) -> result; on_execution(chooser, result). Returns (count, capped)."""
    stack = [[]]
    count = 0
    capped = False
    while stack:
        prefix = stack.pop()
        ch = Chooser(prefix)
        res = run(ch)
        count += 1
        on_execution(ch, res)
        if cap is not None and count >= cap:
            capped = bool(stack)
            break
        for i in range(len(prefix), len(ch.points)):
            if ch.deviations_before(i) + 1 > bound:
                continue
            for alt in range(1, ch.points[i][0]):
                stack.append(ch.choices[:i] + [alt])
    return count, capped

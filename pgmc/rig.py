"""The rig: real pygopherd code, in-process connections, controlled environment.

Everything here drives the implementation imported from /repo's working tree.
No pygopherd logic is modelled; only the environment (socket, clock, logger,
scratch content trees) is substituted.
"""
from __future__ import annotations

import atexit
import configparser
import io
import os
import shutil
import socket
import ssl
import sys
import tempfile
import time as _time

REPO = os.environ.get("PGMC_REPO", "/repo")
if sys.path[0] != REPO:
    sys.path.insert(0, REPO)

os.environ.setdefault("TZ", "UTC")
try:
    _time.tzset()
except Exception:
    pass
os.umask(0o022)

import logging  # noqa: E402
import warnings  # noqa: E402

logging.disable(logging.CRITICAL)  # simpletal logs through the logging module

warnings.filterwarnings("ignore", category=SyntaxWarning)

import mimetypes  # noqa: E402

import pygopherd  # noqa: E402
import pygopherd.fileext  # noqa: E402
import pygopherd.gopherentry  # noqa: E402
import pygopherd.handlers.base  # noqa: E402
import pygopherd.handlers.HandlerMultiplexer  # noqa: E402
import pygopherd.handlers.UMN  # noqa: E402
import pygopherd.server  # noqa: E402
from pygopherd import GopherExceptions, initialization, logger  # noqa: E402
from pygopherd.protocols import ProtocolMultiplexer  # noqa: E402,F401

assert os.path.realpath(pygopherd.__file__).startswith(os.path.realpath(REPO)), (
    "pygopherd imported from %s, not from %s" % (pygopherd.__file__, REPO)
)

SHIPPED_CONF = os.path.join(REPO, "conf", "pygopherd.conf")
LOCAL_CONF = os.path.join(REPO, "conf", "local.conf")
MIME_TYPES = os.path.join(REPO, "conf", "mime.types")

CLIENT_ADDR = ("10.77.77.77", 7777)
SERVER_NAME = "gopher.test"
SERVER_PORT = 70

# ---------------------------------------------------------------------------
# scratch space
# ---------------------------------------------------------------------------

_scratch_root = None


def scratch_root() -> str:
    """A per-process scratch directory outside /repo and /verif, removed at exit."""
    global _scratch_root
    if _scratch_root is None or _scratch_owner != os.getpid():
        _new_scratch()
    return _scratch_root


_scratch_owner = None


def _new_scratch():
    global _scratch_root, _scratch_owner
    parent = os.environ.get("PGMC_SCRATCH_PARENT")
    if parent and os.path.isdir(parent):
        # a worker of a check process: the check process removes the whole parent
        _scratch_root = tempfile.mkdtemp(prefix="p%d-" % os.getpid(), dir=parent)
        _scratch_owner = os.getpid()
        return
    base = os.environ.get("PGMC_SCRATCH")
    if not base:
        base = "/dev/shm" if os.path.isdir("/dev/shm") and os.access("/dev/shm", os.W_OK) else tempfile.gettempdir()
    _scratch_root = tempfile.mkdtemp(prefix="pgmc-%d-" % os.getpid(), dir=base)
    _scratch_owner = os.getpid()
    os.environ["PGMC_SCRATCH_PARENT"] = _scratch_root
    atexit.register(_cleanup, _scratch_root, os.getpid())


def _cleanup(path, pid):
    if os.getpid() == pid:
        shutil.rmtree(path, ignore_errors=True)


_counter = 0


def fresh_dir(tag="w") -> str:
    global _counter
    _counter += 1
    d = os.path.join(scratch_root(), "%s%d" % (tag, _counter))
    os.makedirs(d)
    return d


def rmtree(path):
    shutil.rmtree(path, ignore_errors=True)


# ---------------------------------------------------------------------------
# configuration
# ---------------------------------------------------------------------------

_full_handlers = None


def full_handler_list() -> str:
    """The handler list shipped (uncommented) in conf/local.conf = the "full" list."""
    global _full_handlers
    if _full_handlers is None:
        c = configparser.ConfigParser()
        c.read(LOCAL_CONF)
        _full_handlers = c.get("handlers.HandlerMultiplexer", "handlers")
    return _full_handlers


def make_config(root: str, handlers: str = "default", cachetime: int = 0, **over) -> configparser.ConfigParser:
    """The shipped configuration with only the harness-owned knobs overridden."""
    config = initialization.init_config(SHIPPED_CONF)
    config.set("pygopherd", "root", root)
    config.set("pygopherd", "mimetypes", MIME_TYPES)
    config.set("pygopherd", "usechroot", "no")
    config.set("pygopherd", "servername", SERVER_NAME)
    config.set("pygopherd", "port", str(SERVER_PORT))
    config.set("logger", "logmethod", "none")
    config.set("handlers.dir.DirHandler", "cachetime", str(cachetime))
    if handlers == "full":
        config.set("handlers.HandlerMultiplexer", "handlers", full_handler_list())
        config.set("handlers.ZIP.ZIPHandler", "enabled", "true")
        config.set(
            "handlers.file.CompressedFileHandler",
            "decompressors",
            "{'bzip2': 'bzcat', 'gzip' : 'zcat', 'compress' : 'zcat'}",
        )
    elif handlers != "default":
        config.set("handlers.HandlerMultiplexer", "handlers", handlers)
    for key, val in over.items():
        sect, opt = key.split("__")
        sect = sect.replace("_DOT_", ".")
        if not config.has_section(sect):
            config.add_section(sect)
        config.set(sect, opt, val)
    return config


_mime_inited = None


def init_mime(config):
    """Run the real init_mimetypes (it mutates module tables) whenever the
    MIME-related configuration differs from the one last initialised."""
    global _mime_inited
    key = (config.get("pygopherd", "mimetypes"), config.get("pygopherd", "encoding"))
    if _mime_inited != key:
        old = logger.log if hasattr(logger, "log") else None
        logger.log = lambda m: None
        pygopherd.fileext.typemap.clear()
        # a server process reads its tables once; mimetypes.init(files) ADDS to a database that is already there,
        # so a world with other tables needs a fresh one
        mimetypes._db = None
        mimetypes.inited = False
        mimetypes.init()
        mimetypes.encodings_map.clear()
        mimetypes.encodings_map.update({".gz": "gzip", ".Z": "compress", ".bz2": "bzip2", ".xz": "xz", ".br": "br"})  # Python's defaults
        initialization.init_mimetypes(config)
        if old is not None:
            logger.log = old
        _mime_inited = key


def reset_lazies():
    """Forget the module-level lazily initialised tables (between worlds)."""
    pygopherd.handlers.HandlerMultiplexer.handlers = None
    pygopherd.handlers.HandlerMultiplexer.rootpath = None
    pygopherd.handlers.base.rootpath = None
    pygopherd.gopherentry.mapping = None
    pygopherd.gopherentry.eaexts = None
    pygopherd.handlers.UMN.extstrip = None


def lazies_state():
    return (
        pygopherd.handlers.HandlerMultiplexer.handlers is not None,
        pygopherd.handlers.HandlerMultiplexer.rootpath,
        pygopherd.handlers.base.rootpath,
        pygopherd.gopherentry.mapping is not None,
        pygopherd.gopherentry.eaexts is not None,
        pygopherd.handlers.UMN.extstrip,
    )


# ---------------------------------------------------------------------------
# log capture and catch-all detection
# ---------------------------------------------------------------------------

import threading as _threading  # noqa: E402


class LogCapture:
    """Thread-aware: records are kept per serving thread."""

    def __init__(self):
        self.by_thread = {}

    @property
    def records(self):
        return self.by_thread.setdefault(_threading.get_ident(), [])

    def __call__(self, message):
        self.records.append(message)


LOG = LogCapture()
logger.log = LOG


class _CatchAllProxy:
    """Stands in for pygopherd.server's reference to GopherExceptions so that an
    exception reaching the connection handler's catch-all is distinguishable from
    one a protocol turned into an error reply."""

    def __init__(self):
        self.by_thread = {}

    @property
    def caught(self):
        return self.by_thread.setdefault(_threading.get_ident(), [])

    def log(self, exception, protocol=None, handler=None):
        self.caught.append(exception)
        return GopherExceptions.log(exception, protocol, handler)

    def __getattr__(self, name):
        return getattr(GopherExceptions, name)


CATCHALL = _CatchAllProxy()
pygopherd.server.GopherExceptions = CATCHALL


class _QuietTraceback:
    def __init__(self):
        self.printed = 0

    def print_exc(self, *a, **k):
        self.printed += 1

    def __getattr__(self, name):
        import traceback

        return getattr(traceback, name)


pygopherd.server.traceback = _QuietTraceback()


class _PMProxy:
    """Records which protocol object the multiplexer handed to the connection handler."""

    def __init__(self):
        self.by_thread = {}

    @property
    def last(self):
        return self.by_thread.get(_threading.get_ident())

    @last.setter
    def last(self, v):
        self.by_thread[_threading.get_ident()] = v

    def getProtocol(self, *a, **k):
        self.last = None
        p = ProtocolMultiplexer.getProtocol(*a, **k)
        self.last = p
        return p

    def __getattr__(self, name):
        return getattr(ProtocolMultiplexer, name)


PM = _PMProxy()
pygopherd.server.ProtocolMultiplexer = PM

# ---------------------------------------------------------------------------
# fake connection
# ---------------------------------------------------------------------------


class FakeSock(socket.socket):
    """In-memory connection: makefile('rb') hands out the request stream, writes
    arrive through sendall() (StreamRequestHandler's unbuffered _SocketWriter)."""

    def __init__(self, data: bytes, fail_at=None, fail_exc=None, on_write=None, fail_once=False):  # noqa
        self.fail_once = fail_once
        self._rfile = io.BytesIO(data)
        self.writes = []
        self.fail_at = fail_at  # 1-based index of the first failing write
        self.fail_exc = fail_exc
        self.on_write = on_write
        self.nwrites = 0
        self.failed = 0
        self._spliced = []

    def makefile(self, mode="r", buffering=-1, *a, **k):
        if mode[0] == "r":
            return self._rfile
        # a buffered connection writer (StreamRequestHandler.wbufsize != 0): every flush of the
        # buffer is one send on the connection
        sock = self

        class _Raw(io.RawIOBase):
            def writable(self):
                return True

            def write(self, b):
                sock.sendall(bytes(b))
                return len(b)

        return io.BufferedWriter(_Raw(), buffer_size=buffering if buffering and buffering > 0 else 8192)

    def sendall(self, b, *a):
        self.nwrites += 1
        if self.fail_at is not None and (self.nwrites == self.fail_at if self.fail_once else self.nwrites >= self.fail_at):
            self.failed += 1
            raise self.fail_exc()
        data = bytes(b)
        if self.on_write is not None:
            self.on_write(data)
        self.writes.append(data)

    def send(self, b, *a):
        self.sendall(b)
        return len(b)

    def settimeout(self, t):
        pass

    def setsockopt(self, *a):
        pass

    def getpeername(self):
        return CLIENT_ADDR

    def fileno(self):
        """A handler that hands the connection to a subprocess needs a real
        descriptor: give it a scratch file and splice its content into the
        write log at this position afterwards."""
        f = tempfile.TemporaryFile(dir=scratch_root())
        self._spliced.append((len(self.writes), f))
        return f.fileno()

    def collect(self):
        if not self._spliced:
            return list(self.writes)
        out = list(self.writes)
        for pos, f in reversed(self._spliced):
            f.seek(0)
            data = f.read()
            f.close()
            if data:
                out.insert(pos, data)
        self._spliced = []
        self.writes = out
        return list(out)

    def close(self):
        pass

    def shutdown(self, how):
        pass

    def __del__(self):
        pass


class FakeTLSSock(FakeSock, ssl.SSLSocket):
    """TLS-ness is decided by class, exactly as check_tls() tests it."""

    def __init__(self, *a, **k):  # noqa
        FakeSock.__init__(self, *a, **k)


class Result:
    __slots__ = ("out", "writes", "escaped", "caught", "log", "wall", "failed_writes", "proto", "nwrites")

    def __init__(self, out, writes, escaped, caught, log, wall, failed_writes=0, nwrites=None):
        self.nwrites = len(writes) if nwrites is None else nwrites
        self.proto = type(PM.last).__name__ if PM.last is not None else None
        self.out = out
        self.writes = writes
        self.escaped = escaped
        self.caught = caught
        self.log = log
        self.wall = wall
        self.failed_writes = failed_writes

    @property
    def internal_error(self):
        """An exception escaped handle() or reached its catch-all."""
        return self.escaped is not None or bool(self.caught)

    def describe_error(self):
        if self.escaped is not None:
            return "escaped handle(): %s: %s" % (type(self.escaped).__name__, self.escaped)
        if self.caught:
            e = self.caught[0]
            return "reached catch-all: %s: %s" % (type(e).__name__, e)
        return None


REQUEST_TIME_LIMIT = 10  # seconds: "bounded time"
MAX_TIMEOUTS = 6
_timeouts = 0


class RequestTimeout(BaseException):
    """Raised inside a request that runs longer than REQUEST_TIME_LIMIT."""


def _on_alarm(signum, frame):
    raise RequestTimeout("request exceeded %d s" % REQUEST_TIME_LIMIT)


def _arm_alarm():
    import signal

    if _threading.current_thread() is not _threading.main_thread():
        return None
    old = signal.signal(signal.SIGALRM, _on_alarm)
    signal.alarm(REQUEST_TIME_LIMIT)
    return old


def _disarm_alarm(old):
    import signal

    if old is None and _threading.current_thread() is not _threading.main_thread():
        return
    signal.alarm(0)
    signal.signal(signal.SIGALRM, old if old is not None else signal.SIG_DFL)


def make_server(config, server_class=None):
    server_class = server_class or pygopherd.server.ThreadingTCPServer
    server = server_class(
        config, ("127.0.0.1", 0), pygopherd.server.GopherRequestHandler, bind_and_activate=False
    )
    server.server_name = SERVER_NAME
    server.server_port = SERVER_PORT
    server.socket.close()
    return server


def serve(server, data: bytes, tls=False, fail_at=None, fail_exc=None, sock=None, fail_once=False) -> Result:
    """Serve one connection carrying `data` through the real connection handler."""
    if sock is None:
        cls = FakeTLSSock if tls else FakeSock
        sock = cls(data, fail_at=fail_at, fail_exc=fail_exc, fail_once=fail_once)
    del LOG.records[:]
    del CATCHALL.caught[:]
    PM.last = None
    escaped = None
    global _timeouts
    if _timeouts >= MAX_TIMEOUTS and _threading.current_thread() is _threading.main_thread():
        # the server hangs again and again: do not spend REQUEST_TIME_LIMIT on every further
        # request of this worker, report them as hanging straight away
        return Result(b"", [], RequestTimeout("not served: %d earlier requests of this worker exceeded the time limit" % _timeouts), [], [], 0.0)
    t0 = _time.perf_counter()
    armed = _arm_alarm()
    try:
        pygopherd.server.GopherRequestHandler(sock, CLIENT_ADDR, server)
    except BaseException as e:  # noqa
        if isinstance(e, (KeyboardInterrupt, SystemExit)):
            raise
        escaped = e
    finally:
        _disarm_alarm(armed)
    if isinstance(escaped, RequestTimeout):
        _timeouts += 1
    wall = _time.perf_counter() - t0
    writes = sock.collect()
    return Result(b"".join(writes), writes, escaped, list(CATCHALL.caught), list(LOG.records), wall, sock.failed, sock.nwrites)


def serve_socketpair(server, data: bytes, tls=False, timeout=20.0) -> Result:
    """Same, over a real socketpair (needed when a handler passes the connection
    to a subprocess).  TLS-ness is again decided by class: a thin SSLSocket
    subclass that delegates to the plain descriptor."""
    a, b = socket.socketpair()
    a.settimeout(timeout)
    b.settimeout(timeout)
    del LOG.records[:]
    del CATCHALL.caught[:]
    PM.last = None
    escaped = None
    b.sendall(data)
    b.shutdown(socket.SHUT_WR)
    t0 = _time.perf_counter()
    try:
        pygopherd.server.GopherRequestHandler(a, CLIENT_ADDR, server)
    except BaseException as e:  # noqa
        if isinstance(e, (KeyboardInterrupt, SystemExit)):
            raise
        escaped = e
    try:
        a.shutdown(socket.SHUT_WR)
    except OSError:
        pass
    a.close()
    chunks = []
    while True:
        try:
            c = b.recv(65536)
        except socket.timeout:
            break
        if not c:
            break
        chunks.append(c)
    b.close()
    wall = _time.perf_counter() - t0
    return Result(b"".join(chunks), chunks, escaped, list(CATCHALL.caught), list(LOG.records), wall)


# ---------------------------------------------------------------------------
# worlds
# ---------------------------------------------------------------------------


def write_file(path, data=b"", mode=None, mtime=None):
    if isinstance(path, str):
        path = os.fsencode(path)
    d = os.path.dirname(path)
    if d and not os.path.isdir(d):
        os.makedirs(d)
    with open(path, "wb") as f:
        f.write(data if isinstance(data, bytes) else data.encode("utf-8", "surrogateescape"))
    if mode is not None:
        os.chmod(path, mode)
    if mtime is not None:
        os.utime(path, (mtime, mtime))


def build_tree(base: str, spec: dict, mtime=1000000000):
    """spec: {relative name: bytes | str | dict (subdir) | ('link', target) | ('exec', bytes)}.
    Names may be str (surrogateescape) or bytes.  Every mtime is pinned."""
    bbase = os.fsencode(base)
    if not os.path.isdir(bbase):
        os.makedirs(bbase)
    for name, val in spec.items():
        bname = name if isinstance(name, bytes) else name.encode("utf-8", "surrogateescape")
        p = os.path.join(bbase, bname)
        if isinstance(val, dict):
            build_tree(os.fsdecode(p), val, mtime)
        elif isinstance(val, tuple) and val[0] == "link":
            os.symlink(val[1], p)
        elif isinstance(val, tuple) and val[0] == "exec":
            write_file(p, val[1], mode=0o755, mtime=mtime)
        elif isinstance(val, tuple) and val[0] == "fifo":
            os.mkfifo(p)
        else:
            write_file(p, val, mtime=mtime)
    os.utime(bbase, (mtime, mtime))


def tree_digest(base: str, skip=()):
    """Canonical digest of a tree (names, kinds, bytes) for state de-duplication."""
    import hashlib

    h = hashlib.sha1()
    bbase = os.fsencode(base)
    for dirpath, dirnames, filenames in os.walk(bbase):
        dirnames.sort()
        rel = os.path.relpath(dirpath, bbase)
        h.update(b"D" + rel + b"\0")
        for fn in sorted(filenames):
            if fn in skip:
                continue
            p = os.path.join(dirpath, fn)
            h.update(b"F" + fn + b"\0")
            if os.path.islink(p):
                h.update(b"L" + os.readlink(p))
            else:
                try:
                    with open(p, "rb") as f:
                        h.update(hashlib.sha1(f.read()).digest())
                except OSError:
                    h.update(b"?")
    return h.hexdigest()


class World:
    """A scratch content tree + config + server, served in-process."""

    def __init__(self, spec=None, handlers="default", cachetime=0, root=None, tag="w", **over):
        self.base = fresh_dir(tag)
        self.root = root or os.path.join(self.base, "root")
        if spec is not None:
            build_tree(self.root, spec)
        elif not os.path.isdir(self.root):
            os.makedirs(self.root)
        self.config = make_config(self.root, handlers=handlers, cachetime=cachetime, **over)
        init_mime(self.config)
        reset_lazies()
        self.server = make_server(self.config)

    def reconfigure(self, handlers="default", cachetime=0, **over):
        self.config = make_config(self.root, handlers=handlers, cachetime=cachetime, **over)
        reset_lazies()
        self.server = make_server(self.config)

    def serve(self, data: bytes, tls=False, **k) -> Result:
        return serve(self.server, data, tls=tls, **k)

    def serve_fd(self, data: bytes, tls=False) -> Result:
        return serve_socketpair(self.server, data, tls=tls)

    def destroy(self):
        rmtree(self.base)


# ---------------------------------------------------------------------------
# request wrappers: one selector expressed in each protocol's own syntax
# ---------------------------------------------------------------------------

from urllib.parse import quote as _quote  # noqa: E402


def sel_bytes(selector) -> bytes:
    return selector if isinstance(selector, bytes) else selector.encode("utf-8", "surrogateescape")


def urlq(selector, safe="/") -> str:
    return _quote(sel_bytes(selector), safe=safe)


PROTOCOLS = ["gopher", "gopherp", "gopherp_info", "gopherp_dir", "http", "http_head", "wap", "gemini", "spartan"]
TLS_PROTOCOLS = ["sgopher", "sgopherp", "sgopherp_dir", "https"]


def request(proto: str, selector, search=None):
    """(bytes, tls) for `selector` in protocol `proto` ("s" prefix / gemini = TLS).
    URL-based protocols percent-encode the selector (a conservative client)."""
    s = sel_bytes(selector)
    srch = None if search is None else sel_bytes(search)
    if proto in ("gopher", "sgopher"):
        line = s + (b"\t" + srch if srch is not None else b"") + b"\r\n"
        return line, proto[0] == "s" and proto != "spartan"
    if proto in ("gopherp", "sgopherp", "gopherp_info", "sgopherp_info", "gopherp_dir", "sgopherp_dir"):
        flag = {"gopherp": b"+", "gopherp_info": b"!", "gopherp_dir": b"$"}[proto.lstrip("s") if proto.startswith("sg") else proto]
        line = s + (b"\t" + srch if srch is not None else b"") + b"\t" + flag + b"\r\n"
        return line, proto.startswith("sg")
    if proto in ("http", "https", "http_head", "https_head", "wap"):
        method = b"HEAD" if proto.endswith("_head") else b"GET"
        path = urlq(s).encode()
        if not path.startswith(b"/"):
            path = b"/" + path
        if proto == "wap":
            path = b"/wap" + path
        if srch is not None:
            path += b"?searchrequest=" + _quote(srch, safe="").encode()
        return method + b" " + path + b" HTTP/1.0\r\n\r\n", proto.startswith("https")
    if proto == "gemini":
        path = urlq(s)
        if not path.startswith("/"):
            path = "/" + path
        url = "gemini://" + SERVER_NAME + path
        if srch is not None:
            url += "?" + _quote(srch, safe="")
        return url.encode() + b"\r\n", True
    if proto == "spartan":
        path = urlq(s)
        if not path.startswith("/"):
            path = "/" + path
        body = srch or b""
        return ("%s %s %d\r\n" % (SERVER_NAME, path, len(body))).encode() + body, False
    raise ValueError(proto)


def guard_forked(server, marker_path):
    """A forking server's worker must end inside process_request().  If a change lets it come back out into the
    accept loop, the worker would go on running a copy of the whole harness: catch it there, leave a marker for
    the parent to report, and end the process."""
    parent = os.getpid()
    orig = server._handle_request_noblock

    def guarded():
        try:
            orig()
        finally:
            if os.getpid() != parent:
                try:
                    with open(marker_path, "a") as f:
                        f.write("x")
                finally:
                    os._exit(0)

    server._handle_request_noblock = guarded
    return parent


# create the scratch root in the check process itself, before any worker is forked
scratch_root()

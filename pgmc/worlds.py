"""Standard content trees used by several checks."""
from __future__ import annotations

import gzip
import io
import os
import zipfile

from . import rig

MBOX = (
    b"From alice@example.com Thu Jan  1 00:00:01 2004\n"
    b"From: alice@example.com\nSubject: first message\n\nbody one\n\n"
    b"From bob@example.com Thu Jan  1 00:00:02 2004\n"
    b"From: bob@example.com\nSubject: second message\n\nbody two\n"
)
MAIL1 = b"From: carol@example.com\nSubject: maildir message\n\nmaildir body\n"

PYG = b'''#!/bin/sh
"exec" "echo" "PYG-RUN-AS-SCRIPT"
from pygopherd.handlers.pyg import PYGBase
from pygopherd.gopherentry import GopherEntry


class PYGMain(PYGBase):
    def canhandlerequest(self):
        return 1

    def getentry(self):
        entry = GopherEntry(self.selector, self.config)
        entry.name = "pyg sample"
        entry.type = "0"
        entry.mimetype = "text/plain"
        return entry

    def isdir(self):
        return False

    def write(self, wfile):
        wfile.write(("PYG:%r\\n" % (self.searchrequest,)).encode(errors="surrogateescape"))
'''

SCRIPT = b"#!/bin/sh\necho SCRIPT-RAN\nprintf '%s' \"$SEARCHREQUEST\" | od -An -tx1\n"

TAL = b'<html><body><p tal:content="selector">x</p><b tal:replace="python:1+1">y</b></body></html>\n'

HTML = b"<html><head><title>An HTML\n  Title</title></head><body>hello</body></html>\n"


def make_zip(members, symlinks=(), mtime=(2004, 1, 1, 0, 0, 0)) -> bytes:
    """members: [(name, bytes)] ; symlinks: [(name, target)]"""
    buf = io.BytesIO()
    with zipfile.ZipFile(buf, "w") as z:
        for name, data in members:
            zi = zipfile.ZipInfo(name, date_time=mtime)
            if name.endswith("/"):
                zi.external_attr = (0o40755 << 16) | 0x10
                z.writestr(zi, b"")
            else:
                zi.external_attr = 0o100644 << 16
                z.writestr(zi, data)
        for name, target in symlinks:
            zi = zipfile.ZipInfo(name, date_time=mtime)
            zi.external_attr = 0o120777 << 16
            z.writestr(zi, target)
    return buf.getvalue()


def gz(data: bytes) -> bytes:
    buf = io.BytesIO()
    with gzip.GzipFile(fileobj=buf, mode="wb", mtime=0) as g:
        g.write(data)
    return buf.getvalue()


def standard_spec(full=True):
    """A well-formed tree containing every kind of object pygopherd serves."""
    spec = {
        "f.txt": b"hello file\n",
        "empty.txt": b"",
        "noext": b"no extension\n",
        "h.html": HTML,
        "c.txt.gz": gz(b"compressed text\n" * 3),
        "a": {"f.txt": b"inner file\n", "g.txt": b"inner g\n", "deep": {"d.txt": b"deep\n"}},
        "emptydir": {},
        "m.mbox": MBOX,
        "md": {"cur": {"1:2,S": MAIL1}, "new": {}, "tmp": {}},
        "gm": {"gophermap": b"info line\n0A file\tf.txt\n1Root\t/\nhWeb\tURL:http://example.com/\n1Remote\t/x\tremote.example\t7070\n",
               "f.txt": b"gm file\n"},
        "x.gophermap": b"standalone map\n0File\t/f.txt\n",
        ".names": b"Path=./f.txt\nName=The F File\nNumb=1\n\nName=Elsewhere\nType=1\nPath=/a\nHost=+\nPort=+\n",
        ".cap": {"noext": b"Name=Capped\n"},
        "f.txt.abstract": b"abstract of f\nsecond line\n",
        "z.zip": make_zip([("f.txt", b"zip member f\n"), ("sub/g.txt", b"zip member g\n"), ("m.mbox", MBOX)]),
    }
    if full:
        spec.update({
            "s.sh": ("exec", SCRIPT),
            "p.pyg": ("exec", PYG),
            "t.html.tal": TAL,
        })
    return spec


EMPTY_OK = {b"/empty.txt", b"/emptydir"}


# ---------------------------------------------------------------------------
# names tree (C05 / C06): every name of the alphabet as every kind of object
# ---------------------------------------------------------------------------

NAMES = [b"xURL:y", b"faq:general", b"re: hello", b"mailto:x", b"plain", b"sp ace", b"a&b", b"a?b", b"a|b", b"a#b", b"a%41", b"\xc3\xa9", b"\xae", b"a+b", b"a;b=c", b"a:b", b"a\\b",
         b'q"uote', b"lt<gt>", b"a'b", b" lead", b"-dash", b"a%2Fb", b"a=b&c=d", b"UPPER", b"a,b", b"(p)", b"[b]", b"{c}", b"a^b`c", b"a$b", b"a@b", b"a!b", b"a*b",
         # valid UTF-8 that Unicode normalisation would rewrite: a combining accent, the Angstrom sign, a compatibility ideograph, a ligature
         b"cafe\xcc\x81", b"\xe2\x84\xab", b"\xef\xa4\x80", b"\xef\xac\x81le",
         # names that look like special files only to a case-insensitive eye
         b"INDEX.GOPHERMAP", b"Readme.Gophermap", b"ARCHIVE.ZIP", b"Mail.MBOX"]
URL_ONLY_NAMES = [b"tab\tname", b"lf\nname", b"trail "]


def names_spec(names=None, full=True, depth2=True):
    """One directory per kind, each holding every name as that kind, plus
    dir-name x child-name pairs."""
    names = names or NAMES
    spec = {}
    files = {}
    noext = {}
    dirs = {}
    htmls = {}
    mboxes = {}
    maildirs = {}
    gmdirs = {}
    gmfiles = {}
    zips = {}
    for n in names:
        files[n + b".txt"] = b"text of " + n + b"\n"
        noext[n] = b"noext " + n + b"\n"
        dirs[n] = {b"child.txt": b"child of " + n + b"\n"}
        htmls[n + b".html"] = b"<html><head><title>Title of " + n.replace(b"<", b"&lt;").replace(b"&", b"&amp;") + b"</title></head><body>x</body></html>\n"
        mboxes[n + b".mbox"] = MBOX
        maildirs[n] = {b"cur": {b"1:2,S": MAIL1}, b"new": {}, b"tmp": {}}
        gmdirs[n] = {b"gophermap": b"info in " + n + b"\n0Rel\trel.txt\n1Up\t/\n", b"rel.txt": b"rel\n"}
        gmfiles[n + b".gophermap"] = b"map file\n0F\t/target.txt\n"
        if full:
            zips[n + b".zip"] = make_zip([("m.txt", b"member\n"), ("d/e.txt", b"e\n")])
    spec[b"target.txt"] = b"link target\n"
    # top-level names that begin like the WAP prefix
    spec[b"root.gophermap"] = b"root-level map file\n0Rel target\ttarget.txt\n1Rel dir\tf_dirs\n0Abs\t/target.txt\n"
    spec[b"wapiti.txt"] = b"wapiti\n"
    spec[b"wapping"] = {b"child.txt": b"c\n", b"wap": {b"x.txt": b"x\n"}}
    # (a root-level entry named exactly like the configured WAP prefix is a reserved name, like URL:)
    # a gophermap with one RELATIVE link per name
    gmrel = {b"gophermap": b"".join(b"0rel " + n.replace(b"\t", b" ") + b"\t" + n + b".txt\n" for n in names if b"\t" not in n and b"\n" not in n and not n.startswith(b" ") and not n.endswith(b" "))
             + b"1reldir\tsub dir\n"}
    for n in names:
        gmrel[n + b".txt"] = b"rel target\n"
    gmrel[b"sub dir"] = {b"x.txt": b"x\n"}
    spec[b"f_gmrel"] = gmrel
    spec[b"f_files"] = files
    spec[b"f_noext"] = noext
    spec[b"f_dirs"] = dirs
    spec[b"f_html"] = htmls
    spec[b"f_mbox"] = mboxes
    spec[b"f_maildir"] = maildirs
    spec[b"f_gmdirs"] = gmdirs
    spec[b"f_gmfiles"] = gmfiles
    if full:
        spec[b"f_zips"] = zips
        # names inside an archive
        spec[b"names.zip"] = make_zip([(n.decode("utf-8", "surrogateescape").encode("utf-8", "surrogateescape").decode("latin-1").encode("cp437", "replace").decode("cp437") + ".txt", b"z\n")
                                       for n in names if all(32 <= c < 127 for c in n)])
    if depth2:
        pairs = {}
        for d in names:
            pairs[d] = {c + b".txt": b"pair\n" for c in names}
        spec[b"f_pairs"] = pairs
    return spec

"""Check context: counters, violation handling, known findings, evidence files,
sharded parallel execution."""
from __future__ import annotations

import hashlib
import json
import multiprocessing
import os
import re
import sys
import time
import traceback

VERIF = os.path.dirname(os.path.dirname(os.path.abspath(__file__)))
# (the two overrides exist so that seeded-defect trials against a scratch worktree
#  do not clobber the committed evidence; registered commands never set them)
EVIDENCE_DIR = os.environ.get("PGMC_EVIDENCE_DIR") or os.path.join(VERIF, "evidence")
REPLAY_DIR = os.environ.get("PGMC_REPLAY_DIR") or os.path.join(VERIF, "replays")
KNOWN = os.path.join(VERIF, "known_findings.json")
NPROC = int(os.environ.get("PGMC_NPROC", str(min(16, os.cpu_count() or 1))))


def h64(*parts) -> int:
    h = hashlib.blake2b(digest_size=8)
    for p in parts:
        if isinstance(p, str):
            p = p.encode("utf-8", "surrogateescape")
        elif not isinstance(p, (bytes, bytearray)):
            p = repr(p).encode("utf-8", "surrogateescape")
        h.update(p)
        h.update(b"\x1f")
    return int.from_bytes(h.digest(), "big")


def jsonable(x):
    if isinstance(x, bytes):
        return {"__bytes__": x.decode("latin-1")}
    if isinstance(x, (list, tuple)):
        return [jsonable(i) for i in x]
    if isinstance(x, dict):
        return {(k if isinstance(k, str) else repr(k)): jsonable(v) for k, v in x.items()}
    if isinstance(x, (str, int, float, bool)) or x is None:
        if isinstance(x, str):
            # lone surrogates are not valid JSON text for every consumer
            try:
                x.encode("utf-8")
            except UnicodeEncodeError:
                return {"__bytes__": x.encode("utf-8", "surrogateescape").decode("latin-1"), "__str__": True}
        return x
    return repr(x)


def unjson(x):
    if isinstance(x, dict):
        if "__bytes__" in x:
            b = x["__bytes__"].encode("latin-1")
            return b.decode("utf-8", "surrogateescape") if x.get("__str__") else b
        return {k: unjson(v) for k, v in x.items()}
    if isinstance(x, list):
        return [unjson(i) for i in x]
    return x


class Partial:
    """What one shard of an exploration reports back."""

    def __init__(self):
        self.evaluations = 0
        self.transitions = 0
        self.states = set()
        self.outcomes = set()
        self.violations = []  # (key, detail, case)
        self.samples = []
        self.extra = {}

    def state(self, *parts):
        self.states.add(h64(*parts))

    def outcome(self, *parts):
        self.outcomes.add(h64(*parts))

    def violation(self, key, detail, case):
        if len(self.violations) < 200:
            self.violations.append((key, detail, jsonable(case)))
        self.extra["violations_total"] = self.extra.get("violations_total", 0) + 1

    def sample(self, s, limit=3):
        if len(self.samples) < limit:
            self.samples.append(jsonable(s))

    def count(self, name, n=1):
        self.extra[name] = self.extra.get(name, 0) + n

    def merge(self, other: "Partial"):
        self.evaluations += other.evaluations
        self.transitions += other.transitions
        self.states |= other.states
        self.outcomes |= other.outcomes
        self.violations.extend(other.violations)
        for s in other.samples:
            if len(self.samples) < 12:
                self.samples.append(s)
        for k, v in other.extra.items():
            if isinstance(v, (int, float)):
                self.extra[k] = self.extra.get(k, 0) + v
            elif isinstance(v, set):
                self.extra[k] = self.extra.get(k, set()) | v
            elif isinstance(v, list):
                self.extra.setdefault(k, [])
                self.extra[k].extend(v)
            else:
                self.extra[k] = v


class HarnessError(Exception):
    """The harness itself is inconsistent: exit 2, never a VIOLATION."""


def _run_shard(args):
    func, shard, seed, tier = args
    try:
        p = func(shard, seed, tier)
        return p
    except HarnessError:
        raise
    except Exception:
        raise HarnessError("shard %r failed:\n%s" % (shard, traceback.format_exc()))


_pool = None


def pmap(func, shards, seed, tier, nproc=None):
    """Run func(shard, seed, tier) -> Partial for every shard on a fork pool of
    long-lived workers; returns the merged Partial."""
    global _pool
    nproc = nproc or NPROC
    total = Partial()
    shards = list(shards)
    if nproc <= 1 or len(shards) <= 1:
        for s in shards:
            total.merge(_run_shard((func, s, seed, tier)))
        return total
    ctx = multiprocessing.get_context("fork")
    with ctx.Pool(min(nproc, len(shards))) as pool:
        pids = {w.pid for w in pool._pool}
        it = pool.imap_unordered(_run_shard, [(func, s, seed, tier) for s in shards])
        got = 0
        while got < len(shards):
            try:
                p = it.next(timeout=20)
            except multiprocessing.TimeoutError:
                # a worker that is killed from outside (or crashes) takes its shard with it and the pool would
                # wait for ever: say so instead (workers never end by themselves)
                if {w.pid for w in pool._pool} != pids:
                    raise HarnessError("a worker process of this check ended unexpectedly (killed from outside, or crashed); the shard it was running is lost")
                continue
            total.merge(p)
            got += 1
    return total


class Check:
    def __init__(self, prop, tier, seed, module=None):
        self.prop = prop
        self.tier = tier
        self.seed = seed
        self.module = module
        self.t0 = time.time()
        self.total = Partial()
        self.assumptions = []
        self.bounds = {}
        self.caps = []
        self.rule = ""
        self.exhaustive = True
        self.notes = []

    def add(self, partial: Partial):
        self.total.merge(partial)

    def pmap(self, func, shards, nproc=None):
        p = pmap(func, shards, self.seed, self.tier, nproc)
        self.add(p)
        return p

    # -- known findings -------------------------------------------------
    def _known(self):
        try:
            with open(KNOWN) as f:
                data = json.load(f)
        except FileNotFoundError:
            return []
        return [k for k in data.get("findings", []) if k.get("property") == self.prop]

    def finish(self) -> int:
        tot = self.total
        known = self._known()
        # group violations by key
        bykey = {}
        for key, detail, case in tot.violations:
            bykey.setdefault(key, (detail, case))
        new = {}
        matched = {}
        for key, (detail, case) in sorted(bykey.items()):
            hit = None
            for k in known:
                if re.fullmatch(k["match"], key, re.S):
                    hit = k
                    break
            if hit is not None:
                matched.setdefault(hit["id"], (hit, key))
            else:
                new[key] = (detail, case)
        for fid, (k, key) in sorted(matched.items()):
            print("KNOWN-FINDING: property=%s %s [%s]" % (self.prop, k["what"], fid))
        rc = 0
        confirmed = []
        import shutil

        shutil.rmtree(os.path.join(REPLAY_DIR, self.prop), ignore_errors=True)  # replays of earlier runs are stale
        if new:
            os.makedirs(os.path.join(REPLAY_DIR, self.prop), exist_ok=True)
            shown = 0
            for key, (detail, case) in sorted(new.items()):
                status = "not-replayed"
                if self.module is not None and hasattr(self.module, "replay") and shown < 10:
                    r1 = self._replay(case)
                    r2 = self._replay(case)
                    if r1 and r2 and r1 == r2:
                        status = "reproduced"
                    elif r1 or r2:
                        # the isolated replays disagree with each other: the violation found by the
                        # exploration stands, but say so (history- or timing-dependent behaviour)
                        status = "reproduced-unstable (%r / %r)" % (r1, r2)
                    else:
                        status = "not-reproduced-in-isolation"
                digest = hashlib.sha1(key.encode("utf-8", "surrogateescape")).hexdigest()[:16]
                path = os.path.join(REPLAY_DIR, self.prop, digest + ".json")
                with open(path, "w") as f:
                    json.dump({"property": self.prop, "key": jsonable(key), "detail": jsonable(detail), "case": case, "replay_status": status}, f, indent=1)
                if shown < 25:
                    print("VIOLATION property=%s replay=%s" % (self.prop, path))
                    print("  key: %s" % ascii(key)[:300])
                    print("  detail: %s" % ascii(detail)[:600])
                    print("  replay: %s" % status)
                shown += 1
                confirmed.append(key)
            if shown > 25:
                print("  ... %d distinct violations in total" % shown)
            rc = 1
        self._write_evidence(len(new))
        return rc

    def _replay(self, case):
        try:
            r = self.module.replay(unjson(case))
        except Exception as e:  # a replay that crashes is reported, not hidden
            return "replay raised %s: %s" % (type(e).__name__, e)
        if r is None:
            return None
        return r[0] if isinstance(r, tuple) else r

    def _write_evidence(self, nviol, harness_error=False):
        tot = self.total
        wall = time.time() - self.t0
        extra = {}
        for k, v in tot.extra.items():
            extra[k] = len(v) if isinstance(v, set) else v
        cov = {
            "states": len(tot.states),
            "transitions": tot.transitions,
            "traces_validated_against_impl": tot.evaluations,
            "evaluations": tot.evaluations,
            "distinct_nontrivial": len(tot.outcomes),
            "rule": self.rule,
            "samples": tot.samples[:12],
            "exhaustive": bool(self.exhaustive and not self.caps),
            "bounds": self.bounds,
            "caps_hit": self.caps,
            "counters": extra,
            "notes": self.notes,
        }
        ev = {
            "property_id": self.prop,
            "tier": self.tier,
            "seed": self.seed,
            "level": "model_checking",
            "coverage": cov,
            "assumptions": self.assumptions,
            "wall_s": round(wall, 3),
            "violations": nviol,
        }
        if harness_error:
            ev["coverage"]["notes"] = self.notes + ["HARNESS ERROR: non-deterministic replay"]
        os.makedirs(EVIDENCE_DIR, exist_ok=True)
        path = os.path.join(EVIDENCE_DIR, self.prop + ".json")
        tmp = path + ".tmp%d" % os.getpid()
        with open(tmp, "w") as f:
            json.dump(ev, f, indent=1, sort_keys=True)
            f.write("\n")
        os.replace(tmp, path)
        print(
            "%s tier=%s seed=%d executions=%d states=%d transitions=%d distinct_outcomes=%d violations=%d wall=%.1fs%s"
            % (
                self.prop, self.tier, self.seed, tot.evaluations, len(tot.states), tot.transitions,
                len(tot.outcomes), nviol, wall, (" CAPS=%s" % self.caps) if self.caps else "",
            )
        )


def chunks(seq, n):
    """Split a list into n interleaved shards (deterministic)."""
    seq = list(seq)
    return [seq[i::n] for i in range(n) if seq[i::n]]

"""Reference TAL / TALES evaluator and template grammar (C17 / C18).

A small tree-walking interpreter written from the TAL 1.4 / TALES 1.0 / METAL
specifications: it parses the template with html.parser into a tree, evaluates
the commands in the specified order (define, condition, repeat, content or
replace, attributes, omit-tag) and produces an event stream
[("start", tag, {attrs}), ("text", s), ("end", tag)].  It shares no code with
simpletal.
"""
from __future__ import annotations

import html
import html.parser

VOID = {"area", "base", "basefont", "br", "col", "frame", "hr", "img", "input", "isindex", "link", "meta", "param"}


class Default:
    def __repr__(self):
        return "DEFAULT"


DEFAULT = Default()


class Missing(Exception):
    pass


# ---------------------------------------------------------------------------
# template tree
# ---------------------------------------------------------------------------


class Node:
    __slots__ = ("tag", "attrs", "children", "void")

    def __init__(self, tag, attrs):
        self.tag = tag
        self.attrs = attrs  # list of (name, value)
        self.children = []
        self.void = tag.lower() in VOID


class _TreeBuilder(html.parser.HTMLParser):
    def __init__(self):
        super().__init__(convert_charrefs=True)
        self.root = Node("#root", [])
        self.stack = [self.root]

    def handle_starttag(self, tag, attrs):
        n = Node(tag, [(k, (v if v is not None else ("" if k == "tal:omit-tag" else k))) for k, v in attrs])
        self.stack[-1].children.append(n)
        if not n.void:
            self.stack.append(n)

    def handle_startendtag(self, tag, attrs):
        self.handle_starttag(tag, attrs)
        if tag.lower() not in VOID:
            self.handle_endtag(tag)

    def handle_endtag(self, tag):
        if tag.lower() in VOID:
            return
        for i in range(len(self.stack) - 1, 0, -1):
            if self.stack[i].tag == tag:
                del self.stack[i:]
                return

    def handle_data(self, data):
        self.stack[-1].children.append(data)

    def handle_comment(self, data):
        self.stack[-1].children.append(("comment", data))

    def handle_decl(self, data):
        self.stack[-1].children.append(("decl", data))

    def handle_pi(self, data):
        self.stack[-1].children.append(("pi", data))


def parse(template: str) -> Node:
    b = _TreeBuilder()
    b.feed(template)
    b.close()
    return b.root


# ---------------------------------------------------------------------------
# TALES
# ---------------------------------------------------------------------------


class RepeatVar:
    def __init__(self, seq):
        self.seq = seq
        self.i = 0

    def get(self, name):
        i, n = self.i, len(self.seq)
        if name == "index":
            return i
        if name == "number":
            return i + 1
        if name == "even":
            return 1 if i % 2 == 0 else 0
        if name == "odd":
            return 1 if i % 2 == 1 else 0
        if name == "start":
            return 1 if i == 0 else 0
        if name == "end":
            return 1 if i == n - 1 else 0
        if name == "length":
            return n
        if name == "letter":
            return _letter(i)
        if name == "Letter":
            return _letter(i).upper()
        if name == "roman":
            return _roman(i + 1)
        if name == "Roman":
            return _roman(i + 1).upper()
        raise Missing(name)


def _letter(i):
    if i < 26:
        return chr(97 + i)
    out = ""
    while i > 0:
        i, r = divmod(i, 26)
        out = chr(97 + r) + out
    return out


def _roman(n):
    out = ""
    for s, v in (("m", 1000), ("cm", 900), ("d", 500), ("cd", 400), ("c", 100), ("xc", 90), ("l", 50), ("xl", 40), ("x", 10), ("ix", 9), ("v", 5), ("iv", 4), ("i", 1)):
        while n >= v:
            out += s
            n -= v
    return out


class Env:
    def __init__(self, globs, allow_python=False):
        self.globals = dict(globs)
        self.globals.setdefault("nothing", None)
        self.globals.setdefault("default", DEFAULT)
        self.locals = [{}]
        self.repeat = [{}]
        self.allow_python = allow_python

    def lookup(self, name):
        for scope in reversed(self.locals):
            if name in scope:
                return scope[name]
        if name == "repeat":
            return self.repeat[-1]
        if name in self.globals:
            return self.globals[name]
        raise Missing(name)

    def evaluate(self, expr, attrs):
        """Top-level evaluation from a TAL command: a missing path is 'nothing'."""
        try:
            return self.expr(expr, attrs)
        except Missing:
            return None

    def expr(self, expr, attrs):
        expr = expr.strip()
        for prefix, fn in (("path:", self.path), ("exists:", self.exists), ("nocall:", self.nocall), ("not:", self.not_), ("string:", self.string), ("python:", self.python)):
            if expr.startswith(prefix):
                return fn(expr[len(prefix):].lstrip(), attrs)
        return self.path(expr, attrs)

    def path(self, expr, attrs):
        alts = expr.split("|")
        if len(alts) > 1:
            for a in alts:
                try:
                    return self.expr(a, attrs)
                except Missing:
                    continue
            raise Missing(expr)
        return self.traverse(alts[0].strip(), attrs, call=True)

    def exists(self, expr, attrs):
        alts = expr.split("|")
        try:
            self.traverse(alts[0].strip(), attrs, call=False)
            return 1
        except Missing:
            pass
        for a in alts[1:]:
            try:
                if self.expr(a, attrs):
                    return 1
            except Missing:
                pass
        return 0

    def nocall(self, expr, attrs):
        alts = expr.split("|")
        try:
            return self.traverse(alts[0].strip(), attrs, call=False)
        except Missing:
            pass
        for a in alts[1:]:
            try:
                return self.expr(a, attrs)
            except Missing:
                pass
        raise Missing(expr)

    def not_(self, expr, attrs):
        try:
            v = self.expr(expr, attrs)
        except Missing:
            return 1
        return 0 if truth(v) else 1

    def python(self, expr, attrs):
        if not self.allow_python:
            return 0
        raise NotImplementedError("python: paths are not modelled")

    def string(self, expr, attrs):
        out = ""
        i = 0
        while i < len(expr):
            c = expr[i]
            if c != "$":
                out += c
                i += 1
                continue
            if i + 1 >= len(expr):
                i += 1
                continue
            n = expr[i + 1]
            if n == "$":
                out += "$"
                i += 2
            elif n == "{":
                end = expr.find("}", i + 1)
                if end < 0:
                    i += 1
                    continue
                sub = expr[i + 2:end]
                try:
                    v = self.expr(sub, attrs)
                except Missing:
                    v = ""
                out += "" if v is None else str(v)
                i = end + 1
            else:
                end = expr.find(" ", i + 1)
                if end < 0:
                    end = len(expr)
                sub = expr[i + 1:end]
                try:
                    v = self.traverse(sub, attrs, call=True)
                except Missing:
                    v = ""
                out += "" if v is None else str(v)
                i = end
        return out

    def traverse(self, path, attrs, call):
        parts = path.split("/")
        first = parts[0]
        if first == "attrs":
            val = dict(attrs)
        else:
            val = self.lookup(first)
        for p in parts[1:]:
            if callable(val):
                val = val()
            if isinstance(val, RepeatVar):
                val = val.get(p)
                continue
            if hasattr(val, p) and not isinstance(val, (dict, list, str)):
                val = getattr(val, p)
            else:
                try:
                    try:
                        val = val[p]
                    except TypeError:
                        val = val[int(p)]
                except Exception:
                    raise Missing(path)
        if call and callable(val):
            val = val()
        return val


def truth(v):
    if v is None:
        return False
    if v is DEFAULT:
        return True
    try:
        return len(v) > 0
    except TypeError:
        return bool(v)


# ---------------------------------------------------------------------------
# TAL
# ---------------------------------------------------------------------------

TAL = {"tal:define", "tal:condition", "tal:repeat", "tal:content", "tal:replace", "tal:attributes", "tal:omit-tag"}
METAL = {"metal:define-macro", "metal:use-macro", "metal:define-slot", "metal:fill-slot"}


def split_semis(arg):
    out = []
    cur = ""
    i = 0
    while i < len(arg):
        if arg[i] == ";":
            if i + 1 < len(arg) and arg[i + 1] == ";":
                cur += ";"
                i += 2
                continue
            out.append(cur)
            cur = ""
            i += 1
            continue
        cur += arg[i]
        i += 1
    out.append(cur)
    return [s.lstrip() for s in out]


def esc_text(s):
    return s


class Interp:
    def __init__(self, env: Env, macros=None):
        self.env = env
        self.out = []
        self.macros = macros or {}

    def text(self, s):
        if s == "":
            return
        if self.out and self.out[-1][0] == "text":
            self.out[-1] = ("text", self.out[-1][1] + s)
        else:
            self.out.append(("text", s))

    def run(self, root: Node):
        self.collect_macros(root)
        self.children(root)
        return self.out

    def collect_macros(self, node):
        for c in node.children:
            if isinstance(c, Node):
                d = dict(c.attrs)
                if "metal:define-macro" in d:
                    self.macros[d["metal:define-macro"]] = c
                self.collect_macros(c)

    def children(self, node, slots=None):
        for c in node.children:
            if isinstance(c, str):
                self.text(c)
            elif isinstance(c, tuple):
                self.out.append(c)
            else:
                self.element(c, slots)

    def element(self, node: Node, slots=None):
        env = self.env
        attrs = dict(node.attrs)
        plain = [(k, v) for k, v in node.attrs if k not in TAL and k not in METAL]
        # METAL first
        if "metal:use-macro" in attrs:
            try:
                macro = env.expr(attrs["metal:use-macro"], node.attrs)
            except Missing:
                macro = None
            if macro is None:
                return
            if isinstance(macro, Node):
                fills = {}
                self._find_fills(node, fills)
                self.element_body(macro, dict(macro.attrs), [(k, v) for k, v in macro.attrs if k not in TAL and k not in METAL], fills, skip_metal=True)
                return
        if "metal:define-slot" in attrs and slots is not None and attrs["metal:define-slot"] in slots:
            filler = slots[attrs["metal:define-slot"]]
            self.element_body(filler, dict(filler.attrs), [(k, v) for k, v in filler.attrs if k not in TAL and k not in METAL], None, skip_metal=True)
            return
        self.element_body(node, attrs, plain, slots)

    def _find_fills(self, node, fills):
        for c in node.children:
            if isinstance(c, Node):
                d = dict(c.attrs)
                if "metal:fill-slot" in d:
                    fills.setdefault(d["metal:fill-slot"], c)
                else:
                    self._find_fills(c, fills)

    def element_body(self, node, attrs, plain, slots, skip_metal=False):
        env = self.env
        pushed = False
        if "tal:define" in attrs:
            for stmt in split_semis(attrs["tal:define"]):
                bits = stmt.split(" ")
                scope = "local"
                if len(bits) > 2 and bits[0] in ("local", "global"):
                    scope, name, ex = bits[0], bits[1], " ".join(bits[2:])
                else:
                    name, ex = bits[0], " ".join(bits[1:])
                val = env.evaluate(ex, node.attrs)
                if scope == "global":
                    env.globals[name] = val
                else:
                    if not pushed:
                        env.locals.append({})
                        pushed = True
                    env.locals[-1][name] = val
        try:
            if "tal:condition" in attrs:
                if not truth(env.evaluate(attrs["tal:condition"], node.attrs)):
                    return
            if "tal:repeat" in attrs:
                bits = attrs["tal:repeat"].split(" ")
                name, ex = bits[0], " ".join(bits[1:])
                seq = env.evaluate(ex, node.attrs)
                if seq is DEFAULT:
                    self.rest(node, attrs, plain, slots)
                    return
                try:
                    items = list(seq) if not isinstance(seq, (str, bytes)) or True else seq
                except TypeError:
                    return
                if not items:
                    return
                rv = RepeatVar(items)
                env.repeat.append(dict(env.repeat[-1], **{name: rv}))
                env.locals.append({})
                try:
                    for i, item in enumerate(items):
                        rv.i = i
                        env.locals[-1][name] = item
                        self.rest(node, attrs, plain, slots)
                finally:
                    env.locals.pop()
                    env.repeat.pop()
                return
            self.rest(node, attrs, plain, slots)
        finally:
            if pushed:
                env.locals.pop()

    def rest(self, node, attrs, plain, slots):
        env = self.env
        omit = False
        body = "children"
        value = None
        structure = False
        which = "tal:content" if "tal:content" in attrs else ("tal:replace" if "tal:replace" in attrs else None)
        if which:
            arg = attrs[which]
            bits = arg.split(" ")
            if len(bits) > 1 and bits[0] in ("structure", "text"):
                structure = bits[0] == "structure"
                arg = " ".join(bits[1:])
            v = env.evaluate(arg, node.attrs)
            if v is DEFAULT:
                pass
            elif v is None:
                body = "nothing"
                if which == "tal:replace":
                    omit = True
            else:
                body = "value"
                value = v
                if which == "tal:replace":
                    omit = True
        cur = list(plain)
        if "tal:attributes" in attrs:
            new = []
            remove = set()
            for stmt in split_semis(attrs["tal:attributes"]):
                bits = stmt.split(" ")
                an, ex = bits[0], " ".join(bits[1:])
                v = env.evaluate(ex, node.attrs)
                if v is None:
                    remove.add(an)
                elif v is not DEFAULT:
                    remove.add(an)
                    new.append((an, str(v)))
            cur = new + [(k, v) for k, v in cur if k not in remove]
        if "tal:omit-tag" in attrs:
            arg = attrs["tal:omit-tag"]
            if arg.strip() == "":
                omit = True
            else:
                v = env.evaluate(arg, node.attrs)
                if v is not None and v is not DEFAULT and truth_py(v):
                    omit = True
                elif v is DEFAULT:
                    omit = True
        if node.tag.lower().startswith(("tal:", "metal:")):
            omit = True
        if not omit:
            self.out.append(("start", node.tag, dict(cur)))
        if body == "children":
            self.children(node, slots)
        elif body == "value":
            if isinstance(value, Node):
                self.element(value, None)
            elif structure:
                self.raw(str(value))
            else:
                self.text(str(value))
        if not omit and not node.void:
            self.out.append(("end", node.tag))

    def raw(self, markup):
        """structure: the value is markup; its events are what a client parses."""
        for ev in events_of(markup):
            if ev[0] == "text":
                self.text(ev[1])
            else:
                self.out.append(ev)


def truth_py(v):
    return bool(v)


# ---------------------------------------------------------------------------
# event streams from markup (for comparing outputs)
# ---------------------------------------------------------------------------


class _Events(html.parser.HTMLParser):
    def __init__(self):
        super().__init__(convert_charrefs=True)
        self.ev = []

    def handle_starttag(self, tag, attrs):
        self.ev.append(("start", tag, {k: (v if v is not None else k) for k, v in attrs}))

    def handle_startendtag(self, tag, attrs):
        self.handle_starttag(tag, attrs)
        if tag.lower() not in VOID:
            self.ev.append(("end", tag))

    def handle_endtag(self, tag):
        if tag.lower() not in VOID:
            self.ev.append(("end", tag))

    def handle_data(self, data):
        if self.ev and self.ev[-1][0] == "text":
            self.ev[-1] = ("text", self.ev[-1][1] + data)
        else:
            self.ev.append(("text", data))

    def handle_comment(self, data):
        self.ev.append(("comment", data))

    def handle_decl(self, data):
        self.ev.append(("decl", data))

    def handle_pi(self, data):
        self.ev.append(("pi", data))


def events_of(markup: str):
    p = _Events()
    p.feed(markup)
    p.close()
    return p.ev


def expected_events(template: str, globs, allow_python=False):
    env = Env(globs, allow_python)
    it = Interp(env)
    out = it.run(parse(template))
    return out, env
